(* Cycle/Model.v — executable transcription of salsa's single-threaded algorithm for tracked
   functions WITH cycle handling (Fixpoint: cycle_initial + default/joining cycle_fn;
   FallbackImmediate: cycle_result) next to functions without (Panic).  Definitions only.

   Mirrors (file:lines at the pinned commit; every function below repeats its own range):
     function/fetch.rs              15-49 fetch, 52-73 refresh_memo, 76-105 fetch_hot,
                                    107-157 fetch_cold, 161-251 fetch_cold_cycle
     function/execute.rs            36-116 execute, 118-320 execute_maybe_iterate,
                                    323-341 execute_query, 365-396 previous_iteration,
                                    398-411 seed_active_query, 414-486 try_complete_query,
                                    526-562 PoisonProvisionalIfPanicking, 567-610 outer_cycle,
                                    633-730 collect_all_cycle_heads, 734-762 complete_cycle_participant,
                                    769-905 try_complete_cycle_head, 929-962 complete_cycle_query,
                                    966-995 flatten_cycle_dependencies
     function/maybe_changed_after.rs 89-134 maybe_changed_after, 136-268 maybe_changed_after_cold,
                                    272-296 maybe_changed_after_hot, 299-337 verify_memo,
                                    347-390 shallow_verify_memo(_cold), 393-403 update_shallow,
                                    411-454 validate_may_be_provisional, 463-546 deep_verify_memo,
                                    549-578 maybe_changed_after_cold_cycle, 580-648 deep_verify_edges,
                                    652-704 validate_provisional, 709-768 validate_same_iteration
     function/memo.rs               219-225 may_be_provisional, 229-235 cycle_heads,
                                    239-241 was_cycle_participant, 248-256 mark_as_verified,
                                    617-682 TryClaimCycleHeadsIter
     function.rs                    396-412 provisional_status, 630-688 flatten_cycle_head_dependencies,
                                    691-724 provisional_status / set_cycle_iteration_count /
                                            finalize_cycle_head / cycle_converged
     function/backdate.rs           15-59 backdate_if_appropriate, can_backdate, backdate
     function/sync.rs               103-181 try_claim, 184-238 peek_claim, 242-325 try_claim_transferred,
                                    329-383 peek_claim_transferred, 391-419 mark_as_transfer_target,
                                    474-537 release_panicking / release, 541-576 release_self,
                                    580-633 transfer, 648-688 drop_impl   (single-thread behaviour)
     runtime.rs                     Runtime::block (same-thread arm), block_transferred
     runtime/dependency_graph.rs    transfer_lock, undo_transfer_lock,
                                    unblock_runtimes_blocked_on_transferred_queries_owned_by,
                                    thread_id_of_transferred_query   (one thread: only `transferred`)
     cycle.rs                       CycleHeads::{insert, extend, contains, remove_all_except,
                                    update_iteration_count(_mut), iter_not_eq}, ProvisionalStatus
     active_query.rs                71-94 seed_iteration, 108-142 add_read, 162-166 add_untracked_read,
                                    217-262 prepare_completion, 464-484 finish
     zalsa_local.rs                 547-561 discard_edges_if_never_change, 588-624 QueryRevisionsExtra::new,
                                    754-834 fixpoint_initial / set_cycle_heads / cycle_converged /
                                            iteration / set_iteration_count
   plus, unchanged from Core/Model.v: input.rs set_field, database.rs synthetic_write /
   trigger_lru_eviction (only its cancellation-count bump: no family here has an LRU),
   runtime.rs new_revision / report_tracked_write.

   Modelling decisions (each justified where used):
   * memo objects are held BY VALUE.  In the Rust a replaced memo stays alive until the end
     of the revision and `execute` keeps references to it; every in-place mutation (verified_at,
     verified_final, head removal, iteration counts) goes through the memo table's *current*
     entry, so a held copy only misses mutations of fields that are not read through it.
   * `CycleHeads::remove_all_except` marks heads as removed; every reader skips removed heads
     and a removed head is only ever revived by `insert` on the same vector, which never
     happens to a memo's vector (inserts act on frame-owned vectors).  The model deletes them.
   * `QueryRevisionsExtra` may be absent; then iteration()=default, no heads, and
     set_iteration_count / set_cycle_converged are no-ops: field [cm_extra].
   * one thread: the dependency graph is reduced to its `transferred` map. *)
From Salsa Require Import Base.
From Salsa.Kern Require Import CoreK.
From Salsa.Core Require Model.
From Salsa.Cycle Require Import StampK.

(* user code, edges and input fields are shared with the Core model *)
Notation body := Salsa.Core.Model.body.
Notation Ret := Salsa.Core.Model.Ret.
Notation RdIn := Salsa.Core.Model.RdIn.
Notation CallQ := Salsa.Core.Model.CallQ.
Notation RdCell := Salsa.Core.Model.RdCell.
Notation Touch := Salsa.Core.Model.Touch.
Notation PanicIf := Salsa.Core.Model.PanicIf.
Notation edge := Salsa.Core.Model.edge.
Notation EIn := Salsa.Core.Model.EIn.
Notation EQ := Salsa.Core.Model.EQ.
Notation edge_eqb := Salsa.Core.Model.edge_eqb.
Notation add_edge := Salsa.Core.Model.add_edge.
Notation infield := Salsa.Core.Model.infield.
Notation f_val := Salsa.Core.Model.f_val.
Notation f_changed := Salsa.Core.Model.f_changed.
Notation f_dur := Salsa.Core.Model.f_dur.

(* ---------------------------------------------------------------- configuration *)
Inductive strategy :=
| SPanic        (* CycleRecoveryStrategy::Panic *)
| SFix          (* Fixpoint, cycle_fn = default (returns the new value) *)
| SFixJoin      (* Fixpoint, cycle_fn = |last, new| last | new *)
| SFallback.    (* FallbackImmediate (cycle_result) *)

Definition recovers (st : strategy) : bool :=
  match st with SPanic => false | _ => true end.

(* ---------------------------------------------------------------- state *)
(* CycleHead: (database_key_index, iteration stamp); removed heads are deleted (see header) *)
Definition head := (qkey * stamp)%type.

Record cmemo := {
  cm_val : option val;        (* None = poisoned (cycle strategies never evict here) *)
  cm_verified : rev;          (* verified_at *)
  cm_changed : rev;           (* revisions.changed_at *)
  cm_dur : dur;               (* revisions.durability *)
  cm_untracked : bool;        (* origin is DerivedUntracked *)
  cm_edges : list edge;       (* origin edges *)
  cm_final : bool;            (* revisions.verified_final *)
  cm_extra : bool;            (* QueryRevisionsExtra is allocated *)
  cm_iter : stamp;            (* extra.iteration *)
  cm_heads : list head;       (* extra.cycle_heads *)
  cm_conv : bool              (* extra.cycle_converged *)
}.

(* SyncState of one key, one thread: owner is this thread or Transferred *)
Record sync := { sy_trans : bool; sy_wait : bool; sy_target : bool; sy_twice : bool }.

Inductive cevent :=
| CEvExec (q : qkey)                  (* WillExecute *)
| CEvValidate (q : qkey)              (* DidValidateMemoizedValue *)
| CEvIterate (q : qkey) (it : N)      (* WillIterateCycle { iteration } *)
| CEvFinalize (q : qkey) (it : N).    (* DidFinalizeCycle { iteration } *)

Record cdb := {
  c_revs : revs;                          (* Runtime.revisions *)
  c_ccount : N;                           (* Runtime.cancellation_count (u8) *)
  c_in : ikey -> infield;
  c_cell : cell -> val;
  c_pcell : cell -> val;
  c_memo : qkey -> option cmemo;          (* memo table: current entry per key *)
  c_sync : qkey -> option sync;           (* SyncTable *)
  c_trans : list (qkey * qkey);           (* DependencyGraph.transferred: key -> owning key *)
  c_qstack : list qkey;                   (* ZalsaLocal query stack, innermost first *)
  c_log : list cevent;                    (* newest first *)
  c_runs : list qkey                      (* ghost: one entry per execution of a body, newest first *)
}.

Definition ccur (s : cdb) : rev := r_cur (c_revs s).

Definition cset_revs s x := {| c_revs := x; c_ccount := c_ccount s; c_in := c_in s; c_cell := c_cell s; c_pcell := c_pcell s; c_memo := c_memo s; c_sync := c_sync s; c_trans := c_trans s; c_qstack := c_qstack s; c_log := c_log s; c_runs := c_runs s |}.
Definition cset_ccount s x := {| c_revs := c_revs s; c_ccount := x; c_in := c_in s; c_cell := c_cell s; c_pcell := c_pcell s; c_memo := c_memo s; c_sync := c_sync s; c_trans := c_trans s; c_qstack := c_qstack s; c_log := c_log s; c_runs := c_runs s |}.
Definition cset_in s x := {| c_revs := c_revs s; c_ccount := c_ccount s; c_in := x; c_cell := c_cell s; c_pcell := c_pcell s; c_memo := c_memo s; c_sync := c_sync s; c_trans := c_trans s; c_qstack := c_qstack s; c_log := c_log s; c_runs := c_runs s |}.
Definition cset_cell s x := {| c_revs := c_revs s; c_ccount := c_ccount s; c_in := c_in s; c_cell := x; c_pcell := c_pcell s; c_memo := c_memo s; c_sync := c_sync s; c_trans := c_trans s; c_qstack := c_qstack s; c_log := c_log s; c_runs := c_runs s |}.
Definition cset_pcell s x := {| c_revs := c_revs s; c_ccount := c_ccount s; c_in := c_in s; c_cell := c_cell s; c_pcell := x; c_memo := c_memo s; c_sync := c_sync s; c_trans := c_trans s; c_qstack := c_qstack s; c_log := c_log s; c_runs := c_runs s |}.
Definition cset_memo s x := {| c_revs := c_revs s; c_ccount := c_ccount s; c_in := c_in s; c_cell := c_cell s; c_pcell := c_pcell s; c_memo := x; c_sync := c_sync s; c_trans := c_trans s; c_qstack := c_qstack s; c_log := c_log s; c_runs := c_runs s |}.
Definition cset_sync s x := {| c_revs := c_revs s; c_ccount := c_ccount s; c_in := c_in s; c_cell := c_cell s; c_pcell := c_pcell s; c_memo := c_memo s; c_sync := x; c_trans := c_trans s; c_qstack := c_qstack s; c_log := c_log s; c_runs := c_runs s |}.
Definition cset_trans s x := {| c_revs := c_revs s; c_ccount := c_ccount s; c_in := c_in s; c_cell := c_cell s; c_pcell := c_pcell s; c_memo := c_memo s; c_sync := c_sync s; c_trans := x; c_qstack := c_qstack s; c_log := c_log s; c_runs := c_runs s |}.
Definition cset_qstack s x := {| c_revs := c_revs s; c_ccount := c_ccount s; c_in := c_in s; c_cell := c_cell s; c_pcell := c_pcell s; c_memo := c_memo s; c_sync := c_sync s; c_trans := c_trans s; c_qstack := x; c_log := c_log s; c_runs := c_runs s |}.
Definition cset_log s x := {| c_revs := c_revs s; c_ccount := c_ccount s; c_in := c_in s; c_cell := c_cell s; c_pcell := c_pcell s; c_memo := c_memo s; c_sync := c_sync s; c_trans := c_trans s; c_qstack := c_qstack s; c_log := x; c_runs := c_runs s |}.
Definition cset_runs s x := {| c_revs := c_revs s; c_ccount := c_ccount s; c_in := c_in s; c_cell := c_cell s; c_pcell := c_pcell s; c_memo := c_memo s; c_sync := c_sync s; c_trans := c_trans s; c_qstack := c_qstack s; c_log := c_log s; c_runs := x |}.

(* ---------------------------------------------------------------- monad *)
(* PAssert: one of salsa's internal assertions / expects failed (an unclassified panic) *)
Inductive cpanic := PB (p : panic) | PAssert.

Inductive cres (A : Type) :=
| COk (a : A)
| CPanic (p : cpanic)
| CFuel.
Arguments COk {A} a.
Arguments CPanic {A} p.
Arguments CFuel {A}.

Definition cpanic_code (p : cpanic) : N :=
  match p with PB p' => panic_code p' | PAssert => 99 end.

Definition CM (A : Type) := cdb -> cdb * cres A.
Definition cret {A} (a : A) : CM A := fun s => (s, COk a).
Definition cbind {A B} (m : CM A) (f : A -> CM B) : CM B :=
  fun s => match m s with
           | (s', COk a) => f a s'
           | (s', CPanic p) => (s', CPanic p)
           | (s', CFuel) => (s', CFuel)
           end.
Definition cfail {A} (p : cpanic) : CM A := fun s => (s, CPanic p).
Definition cnofuel {A} : CM A := fun s => (s, CFuel).
Definition cget : CM cdb := fun s => (s, COk s).
Definition cmodify (f : cdb -> cdb) : CM unit := fun s => (f s, COk tt).
Notation "x <- m ;; k" := (cbind m (fun x => k)) (at level 61, m at next level, right associativity).
Notation "m ;;; k" := (cbind m (fun _ => k)) (at level 61, right associativity).

(* a drop guard: if [m] unwinds, run [h] (which never fails) and keep unwinding *)
Definition on_panic {A} (m : CM A) (h : CM unit) : CM A :=
  fun s => match m s with
           | (s', CPanic p) => (fst (h s'), CPanic p)
           | r => r
           end.

Definition cemit (e : cevent) : CM unit := cmodify (fun s => cset_log s (e :: c_log s)).
Definition propagated {A} : CM A := cfail (PB PPropagated).     (* Cancelled::PropagatedPanic.throw() *)
Definition cassert {A} : CM A := cfail PAssert.

(* ---------------------------------------------------------------- cycle heads (cycle.rs) *)
Definition heads_contains (hs : list head) (q : qkey) : bool :=
  existsb (fun h => key_eqb (fst h) q) hs.

Definition heads_not_eq (hs : list head) (q : qkey) : list head :=
  filter (fun h => negb (key_eqb (fst h) q)) hs.

Fixpoint heads_find (hs : list head) (q : qkey) : option stamp :=
  match hs with
  | [] => None
  | h :: hs' => if key_eqb (fst h) q then Some (snd h) else heads_find hs' q
  end.

(* CycleHeads::insert (cycle.rs:324-356): None = the assert_eq on differing iterations fired *)
Definition heads_insert (hs : list head) (q : qkey) (it : stamp) : option (list head) :=
  match heads_find hs q with
  | Some it' => if it' =? it then Some hs else None
  | None => Some (hs ++ [(q, it)])
  end.

(* CycleHeads::extend (cycle.rs:311-322) *)
Fixpoint heads_extend (hs other : list head) : option (list head) :=
  match other with
  | [] => Some hs
  | h :: o' => match heads_insert hs (fst h) (snd h) with
               | Some hs' => heads_extend hs' o'
               | None => None
               end
  end.

(* update_iteration_count(_mut) (cycle.rs:279-308) *)
Definition heads_update (hs : list head) (q : qkey) (it : stamp) : list head :=
  map (fun h => if key_eqb (fst h) q then (fst h, it) else h) hs.

(* ---------------------------------------------------------------- memo header helpers *)
(* QueryRevisions::iteration (zalsa_local.rs:812-817) *)
Definition iter_of (m : cmemo) : stamp := if cm_extra m then cm_iter m else stamp_default.
(* QueryRevisions::cycle_heads (zalsa_local.rs:785-790): the raw vector *)
Definition raw_heads (m : cmemo) : list head := if cm_extra m then cm_heads m else [].
(* MemoHeader::cycle_heads (memo.rs:229-235): only while provisional *)
Definition heads_of (m : cmemo) : list head := if cm_final m then [] else raw_heads m.
(* QueryRevisions::cycle_converged (zalsa_local.rs:799-804) *)
Definition conv_of (m : cmemo) : bool := if cm_extra m then cm_conv m else false.

Definition with_verified (m : cmemo) (r : rev) : cmemo :=
  {| cm_val := cm_val m; cm_verified := r; cm_changed := cm_changed m; cm_dur := cm_dur m;
     cm_untracked := cm_untracked m; cm_edges := cm_edges m; cm_final := cm_final m;
     cm_extra := cm_extra m; cm_iter := cm_iter m; cm_heads := cm_heads m; cm_conv := cm_conv m |}.
Definition with_final (m : cmemo) (b : bool) : cmemo :=
  {| cm_val := cm_val m; cm_verified := cm_verified m; cm_changed := cm_changed m; cm_dur := cm_dur m;
     cm_untracked := cm_untracked m; cm_edges := cm_edges m; cm_final := b;
     cm_extra := cm_extra m; cm_iter := cm_iter m; cm_heads := cm_heads m; cm_conv := cm_conv m |}.
Definition with_changed (m : cmemo) (r : rev) : cmemo :=
  {| cm_val := cm_val m; cm_verified := cm_verified m; cm_changed := r; cm_dur := cm_dur m;
     cm_untracked := cm_untracked m; cm_edges := cm_edges m; cm_final := cm_final m;
     cm_extra := cm_extra m; cm_iter := cm_iter m; cm_heads := cm_heads m; cm_conv := cm_conv m |}.
Definition with_edges (m : cmemo) (es : list edge) : cmemo :=
  {| cm_val := cm_val m; cm_verified := cm_verified m; cm_changed := cm_changed m; cm_dur := cm_dur m;
     cm_untracked := cm_untracked m; cm_edges := es; cm_final := cm_final m;
     cm_extra := cm_extra m; cm_iter := cm_iter m; cm_heads := cm_heads m; cm_conv := cm_conv m |}.
Definition with_value (m : cmemo) (v : option val) (r : rev) : cmemo :=
  {| cm_val := v; cm_verified := r; cm_changed := cm_changed m; cm_dur := cm_dur m;
     cm_untracked := cm_untracked m; cm_edges := cm_edges m; cm_final := cm_final m;
     cm_extra := cm_extra m; cm_iter := cm_iter m; cm_heads := cm_heads m; cm_conv := cm_conv m |}.
(* QueryRevisions::set_cycle_heads (zalsa_local.rs:793-797): get_or_insert_extra *)
Definition with_heads (m : cmemo) (hs : list head) (it : stamp) : cmemo :=
  {| cm_val := cm_val m; cm_verified := cm_verified m; cm_changed := cm_changed m; cm_dur := cm_dur m;
     cm_untracked := cm_untracked m; cm_edges := cm_edges m; cm_final := cm_final m;
     cm_extra := true; cm_iter := it; cm_heads := hs; cm_conv := conv_of m |}.
(* QueryRevisions::set_cycle_converged (zalsa_local.rs:806-810): only with an extra *)
Definition with_conv (m : cmemo) (b : bool) : cmemo :=
  {| cm_val := cm_val m; cm_verified := cm_verified m; cm_changed := cm_changed m; cm_dur := cm_dur m;
     cm_untracked := cm_untracked m; cm_edges := cm_edges m; cm_final := cm_final m;
     cm_extra := cm_extra m; cm_iter := cm_iter m; cm_heads := cm_heads m;
     cm_conv := if cm_extra m then b else cm_conv m |}.
(* QueryRevisions::set_iteration_count (zalsa_local.rs:819-834): only with an extra *)
Definition with_iteration_count (m : cmemo) (q : qkey) (it : stamp) : cmemo :=
  if cm_extra m then
    {| cm_val := cm_val m; cm_verified := cm_verified m; cm_changed := cm_changed m; cm_dur := cm_dur m;
       cm_untracked := cm_untracked m; cm_edges := cm_edges m; cm_final := cm_final m;
       cm_extra := true; cm_iter := it; cm_heads := heads_update (cm_heads m) q it; cm_conv := cm_conv m |}
  else m.

(* cycle.rs:503-518 ProvisionalStatus; function.rs:396-412 + 691-707 *)
Inductive pstatus :=
| PsProvisional (it : stamp) (ver : rev) (hs : list head)
| PsPoisoned (it : stamp) (ver : rev)
| PsFinal (it : stamp) (ver : rev).

Definition status_of (m : cmemo) : pstatus :=
  match cm_val m, cm_final m with
  | None, false => PsPoisoned (iter_of m) (cm_verified m)
  | _, true => PsFinal (iter_of m) (cm_verified m)
  | _, false => PsProvisional (iter_of m) (cm_verified m) (heads_of m)
  end.

(* ---------------------------------------------------------------- active query frame *)
Record cframe := { fr_dur : dur; fr_changed : rev; fr_edges : list edge; fr_untracked : bool;
                   fr_heads : list head }.

(* ActiveQuery::new / reset_for (active_query.rs:200-215, 287-330) *)
Definition cframe0 : cframe :=
  {| fr_dur := D_NEVER; fr_changed := REV_START; fr_edges := []; fr_untracked := false; fr_heads := [] |}.

(* ActiveQuery::add_read (active_query.rs:108-142), no accumulator, no persistence;
   None = CycleHeads::insert's assertion fired *)
Definition cadd_read (fr : cframe) (e : edge) (d : dur) (c : rev) (hs : list head) : option cframe :=
  match heads_extend (fr_heads fr) hs with
  | None => None
  | Some hs' =>
      let record := negb (d =? D_NEVER) || negb (match hs with [] => true | _ => false end) in
      Some {| fr_dur := dur_min (fr_dur fr) d;
              fr_changed := rev_max (fr_changed fr) c;
              fr_edges := if record then add_edge (fr_edges fr) e else fr_edges fr;
              fr_untracked := fr_untracked fr;
              fr_heads := hs' |}
  end.

(* ActiveQuery::add_read_simple (active_query.rs:144-156): input fields *)
Definition cadd_read_simple (fr : cframe) (e : edge) (d : dur) (c : rev) : cframe :=
  {| fr_dur := dur_min (fr_dur fr) d;
     fr_changed := rev_max (fr_changed fr) c;
     fr_edges := if d =? D_NEVER then fr_edges fr else add_edge (fr_edges fr) e;
     fr_untracked := fr_untracked fr;
     fr_heads := fr_heads fr |}.

(* ActiveQuery::add_untracked_read (active_query.rs:162-166) *)
Definition cadd_untracked (fr : cframe) (now : rev) : cframe :=
  {| fr_dur := D_LOW; fr_changed := now; fr_edges := fr_edges fr; fr_untracked := true;
     fr_heads := fr_heads fr |}.

(* ActiveQuery::seed_iteration (active_query.rs:71-94) on a fresh frame (no outputs/structs here) *)
Definition cseed (m : cmemo) : cframe :=
  {| fr_dur := dur_min D_NEVER (cm_dur m);
     fr_changed := rev_max REV_START (cm_changed m);
     fr_edges := [];
     fr_untracked := cm_untracked m;
     fr_heads := [] |}.

(* prepare_completion + finish (active_query.rs:217-262, 464-484) with the frame's heads already
   taken: verified_final = true, extra present iff forced or the stamp is not the default *)
Definition complete_frame (fr : cframe) (edges : list edge) (it : stamp) (force_extra : bool) : cmemo :=
  let extra := force_extra || negb (stamp_is_default it) in
  {| cm_val := None; cm_verified := 0; cm_changed := fr_changed fr; cm_dur := fr_dur fr;
     cm_untracked := fr_untracked fr; cm_edges := edges; cm_final := true;
     cm_extra := extra; cm_iter := if extra then it else stamp_default; cm_heads := []; cm_conv := false |}.

(* QueryRevisions::fixpoint_initial (zalsa_local.rs:754-773) as a memo with the given value *)
Definition initial_memo (q : qkey) (v : option val) (now : rev) (it : stamp) : cmemo :=
  {| cm_val := v; cm_verified := now; cm_changed := REV_START; cm_dur := D_NEVER;
     cm_untracked := false; cm_edges := []; cm_final := false;
     cm_extra := true; cm_iter := it; cm_heads := [(q, it)]; cm_conv := false |}.

(* ---------------------------------------------------------------- DependencyGraph.transferred *)
Definition trans := list (qkey * qkey).

Fixpoint trans_get (l : trans) (q : qkey) : option qkey :=
  match l with
  | [] => None
  | p :: l' => if key_eqb (fst p) q then Some (snd p) else trans_get l' q
  end.
Definition trans_del (l : trans) (q : qkey) : trans :=
  filter (fun p => negb (key_eqb (fst p) q)) l.
Definition trans_set (l : trans) (q o : qkey) : trans := (q, o) :: trans_del l q.

(* unblock_runtimes_blocked_on_transferred_queries_owned_by (dependency_graph.rs): drop the
   mappings of every key whose chain of owners passes through one of [qs] *)
Fixpoint trans_unblock (n : nat) (qs : list qkey) (l : trans) : trans :=
  match n with
  | O => l
  | S n' =>
      match qs with
      | [] => l
      | _ =>
          let owned := fun p : qkey * qkey => existsb (key_eqb (snd p)) qs in
          trans_unblock n' (map fst (filter owned l)) (filter (fun p => negb (owned p)) l)
      end
  end.

(* the cycle-avoiding rewrite in DependencyGraph::transfer_lock: starting at [cur] follow the
   owners; the first key that is owned by [q] is re-pointed to [old_owner] *)
Fixpoint trans_rewrite (n : nat) (l : trans) (q new_owner old_owner cur : qkey) : trans :=
  match n with
  | O => l
  | S n' =>
      match trans_get l cur with
      | None => l
      | Some nt =>
          if key_eqb nt q then
            (if key_eqb old_owner new_owner then trans_del l cur else trans_set l cur old_owner)
          else trans_rewrite n' l q new_owner old_owner nt
      end
  end.

(* DependencyGraph::transfer_lock, one thread (nobody to wake, nobody to block on) *)
Definition trans_transfer (l : trans) (q o : qkey) : trans :=
  match trans_get l q with
  | None => (q, o) :: l
  | Some old =>
      if key_eqb old o then l
      else let l1 := trans_set l q o in
           trans_rewrite (S (length l1)) l1 q o old o
  end.

(* ---------------------------------------------------------------- sync table (one thread) *)
Inductive rmode := RDefault | RSelfOnly | RTransfer (to : qkey).   (* ReleaseMode *)
Inductive claim_res := Claimed (m : rmode) | ClCycle (inner : bool).
Inductive peek_res := PkClaimed | PkCycle (inner : bool).

Definition sync0 : sync := {| sy_trans := false; sy_wait := false; sy_target := false; sy_twice := false |}.

Definition set_sync (q : qkey) (y : option sync) : CM unit :=
  cmodify (fun s => cset_sync s (upd (c_sync s) q y)).

(* SyncTable::try_claim + try_claim_transferred (sync.rs:103-181, 242-325) *)
Definition try_claim (q : qkey) (allow : bool) : CM claim_res :=
  s <- cget ;;
  match c_sync s q with
  | None => set_sync q (Some sync0) ;;; cret (Claimed RDefault)
  | Some y =>
      if sy_trans y then
        match trans_get (c_trans s) q with
        | None =>                                       (* BlockTransferredResult::Released *)
            set_sync q (Some sync0) ;;; cret (Claimed RDefault)
        | Some _ =>                                     (* ImTheOwner *)
            if allow then
              if sy_twice y then cassert                (* debug_assert!(!*claimed_twice) *)
              else set_sync q (Some {| sy_trans := false; sy_wait := sy_wait y;
                                       sy_target := sy_target y; sy_twice := true |}) ;;;
                   cret (Claimed RSelfOnly)
            else cret (ClCycle true)
        end
      else
        (* owned by this thread: Runtime::block returns Cycle; anyone_waiting is set first *)
        set_sync q (Some {| sy_trans := false; sy_wait := true; sy_target := sy_target y;
                            sy_twice := sy_twice y |}) ;;;
        cret (ClCycle false)
  end.

(* SyncTable::peek_claim + peek_claim_transferred (sync.rs:184-238, 329-383), Reentrancy::Deny *)
Definition peek_claim (q : qkey) : CM peek_res :=
  s <- cget ;;
  match c_sync s q with
  | None => cret PkClaimed
  | Some y =>
      if sy_trans y then
        match trans_get (c_trans s) q with
        | None => cret PkClaimed
        | Some _ => cret (PkCycle true)
        end
      else
        set_sync q (Some {| sy_trans := false; sy_wait := true; sy_target := sy_target y;
                            sy_twice := sy_twice y |}) ;;;
        cret (PkCycle false)
  end.

(* ClaimGuard::release (sync.rs:513-537) *)
Definition release_state (q : qkey) (y : sync) : CM unit :=
  if sy_wait y then
    (if sy_twice y then cmodify (fun s => cset_trans s (trans_del (c_trans s) q)) else cret tt) ;;;
    (if sy_target y then
       cmodify (fun s => let l := trans_del (c_trans s) q in
                         cset_trans s (trans_unblock (S (length l)) [q] l))
     else cret tt)
  else cret tt.

(* remove the entry and release: ReleaseMode::Default (sync.rs:650-679) and release_panicking
   (sync.rs:474-510) *)
Definition release_default (q : qkey) : CM unit :=
  s <- cget ;;
  match c_sync s q with
  | None => cassert
  | Some y => set_sync q None ;;; release_state q y
  end.

(* ClaimGuard::release_self (sync.rs:541-576) *)
Definition release_self (q : qkey) : CM unit :=
  s <- cget ;;
  match c_sync s q with
  | None => cassert
  | Some y =>
      if sy_twice y then
        set_sync q (Some {| sy_trans := true; sy_wait := sy_wait y; sy_target := sy_target y;
                            sy_twice := false |})
      else set_sync q None ;;; release_state q y
  end.

(* ClaimGuard::transfer (sync.rs:580-633) + mark_as_transfer_target (391-419) *)
Definition transfer (q o : qkey) : CM unit :=
  s <- cget ;;
  match c_sync s o with
  | None => release_default q ;;; cassert          (* "new owner to be a locked query" *)
  | Some yo =>
      set_sync o (Some {| sy_trans := sy_trans yo; sy_wait := true; sy_target := true;
                          sy_twice := sy_twice yo |}) ;;;
      s1 <- cget ;;
      match c_sync s1 q with
      | None => cassert
      | Some y =>
          set_sync q (Some {| sy_trans := true; sy_wait := sy_wait y; sy_target := sy_target y;
                              sy_twice := false |}) ;;;
          (* transfer_lock: the new owner's thread must be resolvable *)
          if sy_trans yo && match trans_get (c_trans s1) o with None => true | Some _ => false end
          then cassert                                (* "new owner should be blocked on `query`" *)
          else cmodify (fun s2 => cset_trans s2 (trans_transfer (c_trans s2) q o))
      end
  end.

(* ClaimGuard::drop_impl (sync.rs:648-688) *)
Definition drop_guard (q : qkey) (m : rmode) : CM unit :=
  match m with
  | RDefault => release_default q
  | RSelfOnly => release_self q
  | RTransfer o => transfer q o
  end.

(* Drop for ClaimGuard while unwinding: release_panicking; never fails *)
Definition release_panicking (q : qkey) : CM unit :=
  fun s => match c_sync s q with
           | None => (s, COk tt)
           | Some y => (set_sync q None ;;; release_state q y) s
           end.

(* ---------------------------------------------------------------- query stack *)
Definition push_query (q : qkey) : CM unit := cmodify (fun s => cset_qstack s (q :: c_qstack s)).
Definition pop_query : CM unit := cmodify (fun s => cset_qstack s (tl (c_qstack s))).

(* ---------------------------------------------------------------- the algorithm *)
Section Algorithm.
Variable prog : qkey -> body.
Variable strat : N -> strategy.     (* CYCLE_STRATEGY (+ which cycle_fn) per function family *)
Variable cinit : qkey -> val.       (* cycle_initial / cycle_result *)

Definition strat_of (q : qkey) : strategy := strat (fst q).

(* what a reader gets: value plus the stamp and the cycle heads reported to its frame *)
Definition cqres := (val * dur * rev * list head)%type.

Record clower := {
  cl_fetch : qkey -> CM cqres;
  cl_mca : qkey -> rev -> CM bool      (* true = Changed *)
}.

Definition put_memo (q : qkey) (m : cmemo) : CM unit :=
  cmodify (fun s => cset_memo s (upd (c_memo s) q (Some m))).

(* MemoHeader::mark_as_verified (memo.rs:248-256), on the table's entry *)
Definition cmark_verified (q : qkey) (m : cmemo) : CM cmemo :=
  s <- cget ;;
  let m' := with_verified m (ccur s) in
  cemit (CEvValidate q) ;;; put_memo q m' ;;; cret m'.

Inductive cshallow := CShVerified | CShHigher | CShNo.

(* shallow_verify_memo (+_cold) (maybe_changed_after.rs:347-390) *)
Definition cshallow_verify (s : cdb) (m : cmemo) : cshallow :=
  if cm_verified m =? ccur s then CShVerified
  else if shallow_ok (last_changed (c_revs s) (cm_dur m)) (cm_verified m) then CShHigher
  else CShNo.

(* update_shallow (maybe_changed_after.rs:393-403) *)
Definition cupdate_shallow (q : qkey) (m : cmemo) (u : cshallow) : CM cmemo :=
  match u with
  | CShHigher => cmark_verified q m
  | _ => cret m
  end.

(* provisional_status of a key (function.rs:396-412) *)
Definition key_status (s : cdb) (q : qkey) : option pstatus :=
  match c_memo s q with
  | None => None
  | Some m => Some (status_of m)
  end.

(* validate_provisional (maybe_changed_after.rs:652-704): the heads are all final, verified in
   the memo's revision and finalized in the iteration the memo recorded *)
Fixpoint heads_all_final (s : cdb) (ver : rev) (hs : list head) : bool :=
  match hs with
  | [] => true
  | h :: hs' =>
      match key_status s (fst h) with
      | Some (PsFinal it v) => (v =? ver) && (it =? snd h) && heads_all_final s ver hs'
      | _ => false
      end
  end.

Definition validate_provisional (q : qkey) (m : cmemo) : CM (bool * cmemo) :=
  s <- cget ;;
  if heads_all_final s (cm_verified m) (heads_of m) then
    let m' := with_final m true in
    put_memo q m' ;;; cret (true, m')
  else cret (false, m).

(* TryClaimCycleHeadsIter (memo.rs:617-682) consumed by validate_same_iteration
   (maybe_changed_after.rs:746-767) *)
Fixpoint same_iteration_heads (ver : rev) (hs : list head) : CM bool :=
  match hs with
  | [] => cret true
  | h :: hs' =>
      pk <- peek_claim (fst h) ;;
      match pk with
      | PkClaimed => cret false                                  (* Available *)
      | PkCycle _ =>
          s <- cget ;;
          match key_status s (fst h) with
          | None => cassert                                      (* "cycle head memo to exist" *)
          | Some (PsPoisoned it v) =>
              if (v =? ccur s) && (stamp_ccount it =? c_ccount s) then propagated
              else cret false                                    (* Available *)
          | Some (PsProvisional it v _) | Some (PsFinal it v) =>
              if negb (v =? ver) then cret false
              else if negb (snd h =? it) then cret false
              else same_iteration_heads ver hs'
          end
      end
  end.

(* validate_same_iteration (maybe_changed_after.rs:709-768) *)
Definition validate_same_iteration (q : qkey) (m : cmemo) : CM bool :=
  s <- cget ;;
  if negb (cm_verified m =? ccur s) then cret false
  else
    match heads_not_eq (heads_of m) q with
    | [] => cret (existsb (key_eqb q) (c_qstack s))
    | _ => same_iteration_heads (cm_verified m) (heads_of m)
    end.

(* validate_may_be_provisional (maybe_changed_after.rs:411-454) *)
Definition validate_may_be_provisional (q : qkey) (m : cmemo) : CM (bool * cmemo) :=
  if cm_final m then cret (true, m)
  else
    match heads_of m with
    | [] => cret (true, m)
    | _ =>
        s <- cget ;;
        if negb (stamp_ccount (iter_of m) =? c_ccount s) then cret (false, m)
        else
          r <- validate_provisional q m ;;
          if fst r then cret r
          else b <- validate_same_iteration q m ;; cret (b, m)
    end.

(* deep_verify_edges (maybe_changed_after.rs:580-648) *)
Fixpoint cwalk_edges (L : clower) (es : list edge) (since : rev) : CM bool :=
  match es with
  | [] => cret false
  | EIn i :: es' =>
      s <- cget ;;
      if changed_after (f_changed (c_in s i)) since then cret true
      else cwalk_edges L es' since
  | EQ q :: es' =>
      c <- cl_mca L q since ;;
      if c then cret true else cwalk_edges L es' since
  end.

(* deep_verify_memo (maybe_changed_after.rs:463-546): (true, m') = Unchanged *)
Definition cdeep_verify (L : clower) (q : qkey) (m : cmemo) : CM (bool * cmemo) :=
  if cm_untracked m then cret (false, m)
  else if negb (cm_final m) then cret (false, m)
  else if negb (recovers (strat_of q)) && negb (match raw_heads m with [] => true | _ => false end)
       then cret (false, m)                            (* Panic strategy && was_cycle_participant *)
  else
    c <- cwalk_edges L (cm_edges m) (cm_verified m) ;;
    if c then cret (false, m)
    else m' <- cmark_verified q m ;; cret (true, m').

(* verify_memo (maybe_changed_after.rs:299-337) *)
Definition cverify_memo (L : clower) (q : qkey) (m : cmemo) : CM (bool * cmemo) :=
  s <- cget ;;
  match cshallow_verify s m with
  | CShNo => cdeep_verify L q m
  | u =>
      r <- validate_may_be_provisional q m ;;
      if fst r then m' <- cupdate_shallow q (snd r) u ;; cret (true, m')
      else cdeep_verify L q (snd r)
  end.

(* running a body against the current frame *)
Fixpoint crun_body (L : clower) (b : body) (fr : cframe) : CM (val * cframe) :=
  match b with
  | Ret v => cret (v, fr)
  | RdIn i k =>
      s <- cget ;;
      let f := c_in s i in
      crun_body L (k (f_val f)) (cadd_read_simple fr (EIn i) (f_dur f) (f_changed f))
  | CallQ q k =>
      r <- cl_fetch L q ;;
      let '(v, d, c, hs) := r in
      match cadd_read fr (EQ q) d c hs with
      | None => cassert                       (* "Can't merge cycle heads ... with different iterations" *)
      | Some fr' => crun_body L (k v) fr'
      end
  | RdCell c k =>
      s <- cget ;;
      crun_body L (k (c_cell s c)) (cadd_untracked fr (ccur s))
  | Touch k =>
      s <- cget ;;
      crun_body L k (cadd_untracked fr (ccur s))
  | PanicIf c k =>
      s <- cget ;;
      if c_pcell s c =? 0 then crun_body L k fr else cfail (PB PInjected)
  end.

(* execute_query (execute.rs:323-341) + seed_active_query (398-411): push the frame, seed it from
   a provisional memo of this revision, run the body; the frame is popped when unwinding *)
Definition run_query (L : clower) (q : qkey) (seed : option cmemo) : CM (val * cframe) :=
  s <- cget ;;
  let fr0 := match seed with
             | Some m => if negb (cm_final m) && (cm_verified m =? ccur s) then cseed m else cframe0
             | None => cframe0
             end in
  push_query q ;;;
  cmodify (fun s => cset_runs s (q :: c_runs s)) ;;;
  on_panic (crun_body L (prog q) fr0) pop_query.

(* MemoHeader::can_backdate + backdate (backdate.rs:33-59); values_equal is == on u8 *)
Definition cbackdate (old : option cmemo) (v : val) (rev : cmemo) : cres cmemo :=
  match old with
  | Some o =>
      if (match raw_heads rev with [] => true | _ => false end) && cm_final o
         && can_backdate_dur (cm_dur rev) (cm_dur o)
         && (match cm_val o with Some ov => ov =? v | None => false end)
      then if changed_after (cm_changed o) (cm_changed rev) then CPanic (PB PBackdate)
           else COk (with_changed rev (cm_changed o))
      else COk rev
  | None => COk rev
  end.

(* discard_edges_if_never_change (zalsa_local.rs:547-561) *)
Definition cdiscard_edges (rev : cmemo) : cmemo :=
  if (cm_dur rev =? D_NEVER) && negb (cm_untracked rev)
     && (match raw_heads rev with [] => true | _ => false end)
  then with_edges rev [] else rev.

(* ---- cycle head closure: collect_all_cycle_heads (execute.rs:633-730) ---- *)
(* state of the recursion: (missing heads in push order, max iteration, depends_on_self) *)
Definition coll := (list head * stamp * bool)%type.

Fixpoint collect_recursive (n : nat) (cur_head me : qkey) (query_heads : list head) (acc : coll)
  : CM coll :=
  match n with
  | O => cnofuel
  | S n' =>
      if key_eqb cur_head me then
        let '(missing, mx, dep) := acc in cret (missing, mx, true)
      else
        s <- cget ;;
        match key_status s cur_head with
        | None => cassert                     (* "cycle head memo must have been created ..." *)
        | Some (PsPoisoned _ _) => propagated
        | Some (PsFinal _ _) => cassert       (* assert!(provisional_status.is_provisional()) *)
        | Some (PsProvisional _ _ hs) =>
            (fix go (hs : list head) (acc : coll) : CM coll :=
               match hs with
               | [] => cret acc
               | h :: hs' =>
                   let '(missing, mx, dep) := acc in
                   let mx1 := N.max mx (snd h) in
                   if heads_contains query_heads (fst h) then go hs' (missing, mx1, dep)
                   else if existsb (fun x => key_eqb (fst x) (fst h) && (snd x =? snd h)) missing
                        then go hs' (missing, mx1, dep)
                   else
                     acc' <- collect_recursive n' (fst h) me query_heads (missing ++ [h], mx1, dep) ;;
                     go hs' acc'
               end) hs acc
        end
  end.

Fixpoint insert_missing (hs missing : list head) : option (list head) :=
  match missing with
  | [] => Some hs
  | h :: ms => match heads_insert hs (fst h) (snd h) with
               | Some hs' => insert_missing hs' ms
               | None => None
               end
  end.

(* returns (all heads, max iteration over the heads' memos, depends_on_self); the caller takes
   max(iteration, that) — same value as starting the fold at `iteration` *)
Definition collect_all_cycle_heads (n : nat) (heads : list head) (me : qkey) : CM (list head * stamp * bool) :=
  acc <- (fix go (hs : list head) (acc : coll) : CM coll :=
            match hs with
            | [] => cret acc
            | h :: hs' => acc' <- collect_recursive n (fst h) me heads acc ;; go hs' acc'
            end) heads ([], stamp_default, false) ;;
  let '(missing, mx, dep) := acc in
  match insert_missing heads missing with
  | None => cassert
  | Some hs' => cret (hs', mx, dep)
  end.

(* outer_cycle (execute.rs:567-610), same thread: the outermost other head on the query stack,
   else the last other head whose lock this thread holds (not transferred) *)
Fixpoint find_claimed_head (hs : list head) : CM (option qkey) :=   (* hs in reverse order: rfind *)
  match hs with
  | [] => cret None
  | h :: hs' =>
      pk <- peek_claim (fst h) ;;
      match pk with
      | PkCycle false => cret (Some (fst h))
      | _ => find_claimed_head hs'
      end
  end.

Definition outer_cycle (heads : list head) (me : qkey) : CM (option qkey) :=
  s <- cget ;;
  match find (fun k => negb (key_eqb k me) && heads_contains heads k) (List.rev (c_qstack s)) with
  | Some k => cret (Some k)
  | None => find_claimed_head (List.rev (heads_not_eq heads me))
  end.

(* ---- flattening: complete_cycle_query / flatten_cycle_dependencies (execute.rs:929-995),
        Ingredient::flatten_cycle_head_dependencies for functions (function.rs:630-688) and
        input fields (input_field.rs:86-94) ---- *)
Definition flat := (list edge * list qkey)%type.     (* (flattened, seen) *)

Fixpoint flatten_fn (n : nat) (s : cdb) (d : qkey) (acc : flat) : flat :=
  match n with
  | O => acc
  | S n' =>
      match c_memo s d with
      | None => acc
      | Some m =>
          if cm_final m then (add_edge (fst acc) (EQ d), snd acc)
          else if existsb (key_eqb d) (snd acc) then acc
          else
            let acc1 := (fst acc, d :: snd acc) in
            if recovers (strat_of d) then
              (fold_left (fun es e => add_edge es e) (cm_edges m) (fst acc1), snd acc1)
            else
              fold_left (fun a e => match e with
                                    | EIn _ => (add_edge (fst a) e, snd a)
                                    | EQ d' => flatten_fn n' s d' a
                                    end) (cm_edges m) acc1
      end
  end.

Definition flatten_edges (n : nat) (s : cdb) (es : list edge) : list edge :=
  fst (fold_left (fun a e => match e with
                             | EIn _ => (add_edge (fst a) e, snd a)
                             | EQ d => flatten_fn n s d a
                             end) es ([], [])).

(* complete_cycle_query: flatten, pop the frame, force an extra *)
Definition complete_cycle_query (n : nat) (fr : cframe) (it : stamp) : CM cmemo :=
  s <- cget ;;
  let es := flatten_edges n s (fr_edges fr) in
  pop_query ;;;
  cret (complete_frame fr es it true).

(* ---- execute, Panic strategy (execute.rs:56-68) ---- *)
Definition execute_panic (L : clower) (q : qkey) (old : option cmemo) : CM (val * cmemo * rmode) :=
  r <- run_query L q old ;;
  let '(v, fr) := r in
  pop_query ;;;
  (* active_query.pop(IterationStamp::default()): the frame's heads stay in the revisions *)
  let rev0 := complete_frame fr (fr_edges fr) stamp_default false in
  let rev1 := match fr_heads fr with
              | [] => rev0
              | hs => with_final (with_heads rev0 hs stamp_default) false
              end in
  cret (v, rev1, RDefault).

(* ---- execute_maybe_iterate (execute.rs:118-320) ---- *)
Record lstate := { ls_iter : stamp;              (* `iteration` *)
                   ls_last : option cmemo;       (* last_provisional_memo_opt *)
                   ls_old : option cmemo }.      (* the shadowed opt_old_memo *)

Inductive round_out :=
| RDone (v : val) (rev : cmemo) (mode : rmode)
| RIterate (hm : stamp) (v : val) (rev : cmemo) (heads : list head).

Definition recover (q : qkey) (last new : val) : val :=
  match strat_of q with
  | SFixJoin => N.lor last new
  | _ => new
  end.

(* all other heads' memos are flagged converged (execute.rs:817-834) *)
Definition others_converged (s : cdb) (heads : list head) (me : qkey) : bool :=
  forallb (fun h => match c_memo s (fst h) with
                    | None => true
                    | Some m => conv_of m
                    end) (heads_not_eq heads me).

Definition map_heads_memos (f : qkey -> cmemo -> cmemo) (heads : list head) (me : qkey) : CM unit :=
  cmodify (fun s =>
    cset_memo s (fold_left (fun mm h => match mm (fst h) with
                                        | Some m => upd mm (fst h) (Some (f (fst h) m))
                                        | None => mm
                                        end) (heads_not_eq heads me) (c_memo s))).

(* one trip around the loop body: execute the query, then try_complete_query (execute.rs:414-486),
   complete_cycle_participant (734-762) or try_complete_cycle_head (769-905) up to the decision
   to iterate again.  The frame (ActiveQueryGuard) is popped by the completion or by unwinding. *)
Definition round (n : nat) (L : clower) (q : qkey) (st : lstate) : CM round_out :=
  r <- run_query L q (match ls_last st with Some m => Some m | None => ls_old st end) ;;
  let '(v, fr) := r in
  let iteration := ls_iter st in
  match fr_heads fr with
  | [] =>
      (* no cycle heads: Completed (execute.rs:426-438) *)
      match (if stamp_is_initial iteration then Some stamp_default else stamp_increment iteration) with
      | None => on_panic (cfail (PB PTooMany)) pop_query
      | Some it' =>
          pop_query ;;;
          cret (RDone v (complete_frame fr (fr_edges fr) it' false) RDefault)
      end
  | heads0 =>
      d <- on_panic (
             c <- collect_all_cycle_heads n heads0 q ;;
             let '(heads, hm, depends_on_self) := c in
             outer <- outer_cycle heads q ;;
             if negb depends_on_self then
               match outer with
               | None => cassert        (* "cycle participant ... must have an outer cycle" *)
               | Some oc =>
                   match stamp_increment iteration with
                   | None => cfail (PB PTooMany)
                   | Some it' => cret (inl (heads, oc, it'))
                   end
               end
             else
               s <- cget ;;
               match (match ls_last st with Some m => Some m | None => c_memo s q end) with
               | None => cassert        (* "is a cycle head, but no provisional memo found" *)
               | Some last =>
                   match cm_val last with
                   | None => cassert    (* "`fetch_cold_cycle` should have inserted ..." *)
                   | Some lv => cret (inr (heads, hm, outer, last, lv))
                   end
               end
           ) pop_query ;;
      match d with
      | inl (heads, oc, it') =>
          (* Participant + complete_cycle_participant *)
          let v' := match strat_of q with SFallback => cinit q | _ => v end in
          rev0 <- complete_cycle_query n fr it' ;;
          cret (RDone v' (with_final (with_heads rev0 heads it') false) (RTransfer oc))
      | inr (heads, hm, outer, last, lv) =>
          let max_iteration := N.max iteration hm in
          let cycle_iteration := match outer with None => max_iteration | Some _ => iteration end in
          let '(v', value_converged) :=
            match strat_of q with
            | SFallback => (cinit q, true)
            | _ => let nv := recover q lv v in (nv, nv =? lv)
            end in
          (* try_complete_cycle_head *)
          rev0 <- complete_cycle_query n fr iteration ;;
          let metadata_converged :=
            (cm_dur last =? cm_dur rev0) && (cm_changed last =? cm_changed rev0)
            && Bool.eqb (cm_untracked last) (cm_untracked rev0) in
          let this_converged := value_converged && metadata_converged in
          match outer with
          | Some oc =>
              cret (RDone v' (with_final (with_conv (with_heads rev0 heads cycle_iteration)
                                                    this_converged) false)
                          (RTransfer oc))
          | None =>
              s1 <- cget ;;
              if this_converged && others_converged s1 heads q then
                map_heads_memos (fun _ m => with_final m true) heads q ;;;
                cemit (CEvFinalize q (stamp_iteration cycle_iteration)) ;;;
                cret (RDone v' rev0 RDefault)
              else cret (RIterate hm v' rev0 heads)
          end
      end
  end.

(* the loop: not converged → increment max(iteration, heads' iterations), WillIterateCycle, bump
   the other heads, store the provisional memo, go again (execute.rs:866-905, 300-311) *)
Fixpoint iter_loop (k : nat) (n : nat) (L : clower) (q : qkey) (st : lstate)
  : CM (val * cmemo * rmode) :=
  match k with
  | O => cnofuel
  | S k' =>
      r <- round n L q st ;;
      match r with
      | RDone v rev mode => cret (v, rev, mode)
      | RIterate hm v rev heads =>
          match stamp_increment (N.max (ls_iter st) hm) with
          | None => cfail (PB PTooMany)
          | Some it' =>
              cemit (CEvIterate q (stamp_iteration it')) ;;;
              map_heads_memos (fun h m => with_iteration_count m h it') heads q ;;;
              s <- cget ;;
              let rev1 := with_final (with_heads rev (heads_update heads q it') it') false in
              let m := with_value rev1 (Some v) (ccur s) in
              put_memo q m ;;;
              iter_loop k' n L q {| ls_iter := it'; ls_last := Some m; ls_old := ls_old st |}
          end
      end
  end.

(* PoisonProvisionalIfPanicking::drop (execute.rs:549-561) *)
Definition poison (q : qkey) : CM unit :=
  fun s => (cset_memo s (upd (c_memo s) q
                             (Some (initial_memo q None (ccur s) (stamp_initial (c_ccount s))))),
            COk tt).

(* the number of trips is bounded by the iteration byte: MAX_ITERATIONS + 2 is enough *)
Definition LOOP_FUEL : nat := 203.

Definition execute_iterate (n : nat) (L : clower) (q : qkey) (old : option cmemo)
  : CM (val * cmemo * rmode) :=
  s <- cget ;;
  let cc := c_ccount s in
  (* previous_iteration (execute.rs:365-396) applied to a memo of this revision *)
  st <- match old with
        | Some o =>
            if cm_verified o =? ccur s then
              if negb (stamp_ccount (iter_of o) =? cc) then
                cret {| ls_iter := stamp_initial cc; ls_last := None; ls_old := None |}
              else
                match cm_val o with
                | None => propagated
                | Some _ =>
                    cret {| ls_iter := iter_of o;
                            ls_last := if heads_contains (heads_of o) q then Some o else None;
                            ls_old := old |}
                end
            else cret {| ls_iter := stamp_initial cc; ls_last := None; ls_old := old |}
        | None => cret {| ls_iter := stamp_initial cc; ls_last := None; ls_old := None |}
        end ;;
  on_panic (iter_loop LOOP_FUEL n L q st) (poison q).

(* execute (execute.rs:36-116).  The claim is released by the caller's guard handling. *)
Definition cexecute (n : nat) (L : clower) (q : qkey) (mode0 : rmode) (old : option cmemo)
  : CM cmemo :=
  cemit (CEvExec q) ;;;
  r <- (if recovers (strat_of q) then execute_iterate n L q old
        else x <- execute_panic L q old ;;
             let '(v, rev, _) := x in cret (v, rev, mode0)) ;;
  let '(v, rev, mode) := r in
  match cbackdate old v rev with
  | CPanic p => cfail p
  | CFuel => cnofuel
  | COk rev1 =>
      s <- cget ;;
      let m := with_value (cdiscard_edges rev1) (Some v) (ccur s) in
      put_memo q m ;;;
      drop_guard q mode ;;;
      cret m
  end.

(* fetch_cold_cycle (fetch.rs:161-251) *)
Definition fetch_cold_cycle (q : qkey) : CM cmemo :=
  if negb (recovers (strat_of q)) then cfail (PB PCycle)
  else
    s <- cget ;;
    let cc := c_ccount s in
    let now := ccur s in
    let fresh it :=
      let m := initial_memo q (Some (cinit q)) now it in
      put_memo q m ;;; cret m in
    match c_memo s q with
    | Some m =>
        let same_epoch := stamp_ccount (iter_of m) =? cc in
        match cm_val m with
        | None =>
            if negb (cm_final m) && (cm_verified m =? now) && same_epoch then propagated
            else fresh (stamp_initial cc)
        | Some _ =>
            if (cm_verified m =? now) && same_epoch then
              if heads_contains (raw_heads m) q then
                (* remove_all_except(q) *)
                let m' := if cm_extra m then
                            {| cm_val := cm_val m; cm_verified := cm_verified m; cm_changed := cm_changed m;
                               cm_dur := cm_dur m; cm_untracked := cm_untracked m; cm_edges := cm_edges m;
                               cm_final := cm_final m; cm_extra := true; cm_iter := cm_iter m;
                               cm_heads := filter (fun h => key_eqb (fst h) q) (cm_heads m);
                               cm_conv := cm_conv m |}
                          else m in
                put_memo q m' ;;; cret m'
              else fresh (iter_of m)
            else fresh (stamp_initial cc)
        end
    | None => fresh (stamp_initial cc)
    end.

(* fetch_hot (fetch.rs:76-105) *)
Definition cfetch_hot (q : qkey) : CM (option cmemo) :=
  s <- cget ;;
  match c_memo s q with
  | Some m =>
      match cm_val m with
      | Some _ =>
          match cshallow_verify s m with
          | CShNo => cret None
          | u => if cm_final m then m' <- cupdate_shallow q m u ;; cret (Some m') else cret None
          end
      | None => cret None
      end
  | None => cret None
  end.

(* fetch_cold (fetch.rs:107-157) *)
Definition cfetch_cold (n : nat) (L : clower) (q : qkey) : CM cmemo :=
  c <- try_claim q true ;;
  match c with
  | ClCycle _ => fetch_cold_cycle q
  | Claimed mode =>
      on_panic (
        s1 <- cget ;;
        let old := c_memo s1 q in
        ok <- match old with
              | Some m =>
                  match cm_val m with
                  | Some _ => r <- cverify_memo L q m ;;
                              cret (if fst r then Some (snd r) else None)
                  | None => cret None
                  end
              | None => cret None
              end ;;
        match ok with
        | Some m => drop_guard q mode ;;; cret m
        | None => cexecute n L q mode old
        end
      ) (release_panicking q)
  end.

(* fetch (fetch.rs:15-49): the caller's frame receives the memo's stamp and heads *)
Definition cfetch (n : nat) (L : clower) (q : qkey) : CM cqres :=
  hot <- cfetch_hot q ;;
  m <- match hot with
       | Some m => cret m
       | None => cfetch_cold n L q
       end ;;
  match cm_val m with
  | Some v => cret (v, cm_dur m, cm_changed m, heads_of m)
  | None => cassert      (* unwrap_unchecked on a refreshed memo *)
  end.

(* maybe_changed_after_cold (maybe_changed_after.rs:136-268) *)
Definition cmca_cold (n : nat) (L : clower) (q : qkey) (since : rev) : CM bool :=
  c <- try_claim q false ;;
  match c with
  | ClCycle _ =>
      (* maybe_changed_after_cold_cycle (549-578) *)
      if recovers (strat_of q) then cret true else cfail (PB PCycle)
  | Claimed mode =>
      on_panic (
        s1 <- cget ;;
        match c_memo s1 q with
        | None => drop_guard q mode ;;; cret true
        | Some old =>
            r <- cverify_memo L q old ;;
            if fst r then drop_guard q mode ;;; cret (changed_after (cm_changed (snd r)) since)
            else if negb (cm_final (snd r)) then drop_guard q mode ;;; cret true
            else
              match cm_val old with
              | None => drop_guard q mode ;;; cret true
              | Some _ =>
                  mnew <- cexecute n L q mode (Some old) ;;
                  cret (changed_after (cm_changed mnew) since || negb (cm_final mnew))
              end
        end
      ) (release_panicking q)
  end.

(* maybe_changed_after (+_hot) (maybe_changed_after.rs:89-134, 272-296) *)
Definition cmca (n : nat) (L : clower) (q : qkey) (since : rev) : CM bool :=
  s <- cget ;;
  match c_memo s q with
  | None => cret true
  | Some m =>
      match cshallow_verify s m with
      | CShNo => cmca_cold n L q since
      | u =>
          if cm_final m then
            m' <- cupdate_shallow q m u ;; cret (changed_after (cm_changed m') since)
          else cmca_cold n L q since
      end
  end.

Definition cbottom : clower := {| cl_fetch := fun _ => cnofuel; cl_mca := fun _ _ => cnofuel |}.

Fixpoint clevel (nodes : nat) (n : nat) : clower :=
  match n with
  | O => cbottom
  | S n' => let L := clevel nodes n' in
            {| cl_fetch := cfetch nodes L; cl_mca := cmca nodes L |}
  end.

(* ---------------------------------------------------------------- operations (the API) *)
Inductive cop :=
| COSet (i : ikey) (v : val) (d : option dur)
| COSynth (d : dur)
| COSetCell (c : cell) (v : val)
| COSetPanic (c : cell) (v : val)
| COGet (q : qkey)
| COBump.                  (* trigger_lru_eviction: zalsa_mut, i.e. only the cancellation-count bump *)

(* Runtime::new_revision + Zalsa::new_revision (no family has an LRU) *)
Definition cnew_revision (s : cdb) : cdb :=
  let r := c_revs s in
  cset_ccount (cset_revs s {| r_cur := r_cur r + 1; r_med := r_med r; r_high := r_high r |}) 0.

(* Storage::cancel_others (single handle) *)
Definition czalsa_mut (s : cdb) : cdb :=
  if c_ccount s =? 255 then cnew_revision s else cset_ccount s (c_ccount s + 1).

Definition cout := cres val.

Definition cstep (nodes fuel : nat) (s : cdb) (o : cop) : cdb * cout :=
  match o with
  | COSet i v d =>
      let s1 := cnew_revision (czalsa_mut s) in
      let f := c_in s1 i in
      if f_dur f =? D_NEVER then (s1, CPanic (PB PNeverChange))
      else
        let r1 := if f_dur f =? D_LOW then c_revs s1 else report_write (c_revs s1) (f_dur f) in
        let f' := {| Salsa.Core.Model.f_val := v; Salsa.Core.Model.f_changed := ccur s1;
                     Salsa.Core.Model.f_dur := match d with Some d' => d' | None => f_dur f end |} in
        (cset_in (cset_revs s1 r1) (upd (c_in s1) i f'), COk 0)
  | COSynth d =>
      let s1 := cnew_revision (czalsa_mut s) in
      if d =? D_NEVER then (s1, CPanic (PB PNeverChange))
      else (cset_revs s1 (report_write (c_revs s1) d), COk 0)
  | COSetCell c v => (cset_cell s (updN (c_cell s) c v), COk 0)
  | COSetPanic c v => (cset_pcell s (updN (c_pcell s) c v), COk 0)
  | COGet q =>
      match cfetch nodes (clevel nodes fuel) q s with
      | (s', COk (v, _, _, _)) => (s', COk v)
      | (s', CPanic p) => (s', CPanic p)
      | (s', CFuel) => (s', CFuel)
      end
  | COBump => (czalsa_mut s, COk 0)
  end.

Fixpoint crun_ops (nodes fuel : nat) (s : cdb) (os : list cop) : cdb * list cout :=
  match os with
  | [] => (s, [])
  | o :: os' =>
      let '(s1, r) := cstep nodes fuel s o in
      let '(s2, rs) := crun_ops nodes fuel s1 os' in
      (s2, r :: rs)
  end.

End Algorithm.

Definition cinit_db (iv : ikey -> val) (idur : ikey -> dur) : cdb :=
  {| c_revs := {| r_cur := REV_START; r_med := REV_START; r_high := REV_START |};
     c_ccount := 0;
     c_in := fun i => {| Salsa.Core.Model.f_val := iv i; Salsa.Core.Model.f_changed := REV_START;
                         Salsa.Core.Model.f_dur := idur i |};
     c_cell := fun _ => 0;
     c_pcell := fun _ => 0;
     c_memo := fun _ => None;
     c_sync := fun _ => None;
     c_trans := [];
     c_qstack := [];
     c_log := [];
     c_runs := [] |}.

(* Cycle/DslProofs.v — the hypotheses of the C12 theorems hold for EVERY program the `cycles`
   profile can generate: expressions built from byte literals, input reads, union, intersection,
   calls whose key is computed from inputs only and branches whose condition is computed from
   inputs only compile (Core/Dsl.v) to monotone, byte-valued bodies. *)
From Salsa Require Import Base.
From Salsa.Core Require Import Model Spec Dsl.
From Salsa.Cycle Require Import Spec SpecProofs DslSpec.
From Salsa.Cycle Require Examples.

(* the CPS compiler computes the direct-style value *)
Lemma comp_run : forall nk x e k, run e (comp nk x k) = run e (k (deval nk e x)).
Proof.
  induction x as [v | i f | fam ke IH | c | | c | o a IHa b IHb | c IHc a IHa b IHb]; intros e k; cbn [comp deval].
  - reflexivity.
  - reflexivity.
  - rewrite IH. reflexivity.
  - reflexivity.
  - reflexivity.
  - reflexivity.
  - rewrite IHa, IHb. reflexivity.
  - rewrite IHc. destruct (deval nk e c =? 0); [apply IHb | apply IHa].
Qed.

Lemma run_compile nk x e : run e (compile nk x) = deval nk e x.
Proof. unfold compile. now rewrite comp_run. Qed.

Lemma deval_input_only nk x : input_only x = true ->
  forall ein ecell rho rho',
    deval nk {| e_in := ein; e_cell := ecell; e_q := rho |} x =
    deval nk {| e_in := ein; e_cell := ecell; e_q := rho' |} x.
Proof.
  induction x as [v | i f | fam ke IH | c | | c | o a IHa b IHb | c IHc a IHa b IHb];
    intros H ein ecell rho rho'; cbn [deval input_only e_in e_cell e_q] in *; try reflexivity; try discriminate.
  - apply andb_true_iff in H. destruct H as [Ha Hb]. now rewrite (IHa Ha ein ecell rho rho'), (IHb Hb ein ecell rho rho').
  - apply andb_true_iff in H. destruct H as [H Hb]. apply andb_true_iff in H. destruct H as [Hc Ha].
    now rewrite (IHc Hc ein ecell rho rho'), (IHa Ha ein ecell rho rho'), (IHb Hb ein ecell rho rho').
Qed.

Lemma deval_mono nk x : mono_expr x = true ->
  forall ein ecell rho rho', env_le rho rho' ->
    le_bits (deval nk {| e_in := ein; e_cell := ecell; e_q := rho |} x)
            (deval nk {| e_in := ein; e_cell := ecell; e_q := rho' |} x).
Proof.
  induction x as [v | i f | fam ke IH | c | | c | o a IHa b IHb | c IHc a IHa b IHb];
    intros H ein ecell rho rho' Hle; cbn [deval mono_expr e_in e_cell e_q] in *; try discriminate.
  - apply le_bits_refl.
  - apply le_bits_refl.
  - rewrite (deval_input_only nk ke H ein ecell rho rho'). apply Hle.
  - destruct o; try discriminate; apply andb_true_iff in H; destruct H as [Ha Hb]; cbn [binop_eval].
    + apply Examples.land_mono; [now apply IHa | now apply IHb].
    + apply Examples.lor_mono; [now apply IHa | now apply IHb].
  - apply andb_true_iff in H. destruct H as [H Hb]. apply andb_true_iff in H. destruct H as [Hc Ha].
    rewrite (deval_input_only nk c Hc ein ecell rho rho').
    destruct (deval nk _ c =? 0); [now apply IHb | now apply IHa].
Qed.

Lemma deval_lt256 nk x : mono_expr x = true ->
  forall ein ecell rho, (forall i, ein i < 256) -> (forall p, rho p < 256) ->
    deval nk {| e_in := ein; e_cell := ecell; e_q := rho |} x < 256.
Proof.
  induction x as [v | i f | fam ke IH | c | | c | o a IHa b IHb | c IHc a IHa b IHb];
    intros H ein ecell rho Hin Hrho; cbn [deval mono_expr e_in e_cell e_q] in *; try discriminate.
  - now apply N.ltb_lt.
  - apply Hin.
  - apply Hrho.
  - destruct o; try discriminate; apply andb_true_iff in H; destruct H as [Ha Hb]; cbn [binop_eval].
    + apply Examples.land_lt256. now apply IHa.
    + apply Examples.lor_lt256; [now apply IHa | now apply IHb].
  - apply andb_true_iff in H. destruct H as [H Hb]. apply andb_true_iff in H. destruct H as [Hc Ha].
    destruct (deval nk _ c =? 0); [now apply IHb | now apply IHa].
Qed.

Lemma lookup_mono tbl q : mono_table tbl = true -> mono_expr (lookup_node tbl q) = true.
Proof.
  induction tbl as [| [q' x] tbl IH]; cbn; [reflexivity |].
  intros H. apply andb_true_iff in H. destruct H as [Hx Ht].
  destruct (key_eqb q' q); [exact Hx | now apply IH].
Qed.

Theorem dsl_monotone : forall nk tbl sn, mono_table tbl = true -> monotone_prog (prog_of nk tbl) sn.
Proof.
  intros nk tbl sn Ht q rho rho' Hle. unfold F, prog_of. rewrite !run_compile.
  apply deval_mono; [now apply lookup_mono | exact Hle].
Qed.

Theorem dsl_fits8 : forall nk tbl sn, mono_table tbl = true -> (forall i, sn_in sn i < 256) ->
  fits8 (prog_of nk tbl) sn.
Proof.
  intros nk tbl sn Ht Hin q rho Hrho. unfold F, prog_of. rewrite run_compile.
  apply deval_lt256; [now apply lookup_mono | exact Hin | exact Hrho].
Qed.

(* Cycle/LockTop.v — the claim discipline is an invariant of every run of the Cycle model: for all
   programs, strategies, cycle_initial/cycle_result functions and histories (writes of any
   durability, cell changes, fault switches, cancellation bumps, Gets that return or panic), between
   two operations no claim is held and the query stack is empty.  (An operation that runs out of
   the model's fuel is excluded: no guard runs then.) *)
From Coq Require Import PeanoNat Lia.
From Salsa Require Import Base.
From Salsa.Kern Require Import CoreK.
From Salsa.Cycle Require Import StampK Model LockInv LockOps LockFetch.

Section Top.
Variable prog : qkey -> body.
Variable strat : N -> strategy.
Variable cinit : qkey -> val.

Definition idle (s : cdb) : Prop := K [] [] s.

(* what [idle] says in plain terms *)
Lemma idle_plain s : idle s <->
  c_qstack s = [] /\ forall q y, c_sync s q = Some y -> sy_trans y = true /\ sy_twice y = false.
Proof.
  split.
  - intros [[a b c d] Hq]. split; [exact Hq |]. intros q y Hy.
    assert (Ht : sy_trans y = true).
    { destruct (sy_trans y) eqn:Et; [reflexivity |]. exfalso. apply (proj2 (b q)). exists y. split; assumption. }
    split; [exact Ht |]. destruct (sy_twice y) eqn:Etw; [| reflexivity]. pose proof (c q y Hy Etw). congruence.
  - intros [Hq Hall]. split; [| exact Hq]. constructor.
    + constructor.
    + intros q. split; [intros [] |]. intros (y & Hy & Ht). destruct (Hall q y Hy). congruence.
    + intros q y Hy Htw. destruct (Hall q y Hy). congruence.
    + rewrite Hq. intros x [].
Qed.

Lemma idle_init iv idur : idle (cinit_db iv idur).
Proof. apply idle_plain. split; [reflexivity |]. intros q y Hy. discriminate. Qed.

Lemma idle_fields s s' : c_sync s' = c_sync s -> c_qstack s' = c_qstack s -> idle s -> idle s'.
Proof. intros A B. apply K_sim. apply lksim_fields; assumption. Qed.

Lemma idle_new_revision s : idle s -> idle (cnew_revision s).
Proof. apply idle_fields; reflexivity. Qed.
Lemma idle_zalsa_mut s : idle s -> idle (czalsa_mut s).
Proof. unfold czalsa_mut. destruct (c_ccount s =? 255); [apply idle_new_revision | apply idle_fields; reflexivity]. Qed.

Lemma idle_step nodes fuel s o : idle s ->
  snd (cstep prog strat cinit nodes fuel s o) <> CFuel -> idle (fst (cstep prog strat cinit nodes fuel s o)).
Proof.
  intros Hi. destruct o as [i v d | d | c v | c v | q |]; cbn [cstep].
  - pose proof (idle_new_revision _ (idle_zalsa_mut s Hi)) as H1.
    destruct (f_dur (c_in (cnew_revision (czalsa_mut s)) i) =? D_NEVER); cbn [fst]; intros _; [exact H1 |].
    eapply idle_fields; [| | exact H1]; reflexivity.
  - pose proof (idle_new_revision _ (idle_zalsa_mut s Hi)) as H1.
    destruct (d =? D_NEVER); cbn [fst]; intros _; [exact H1 |]. eapply idle_fields; [| | exact H1]; reflexivity.
  - intros _. cbn [fst]. eapply idle_fields; [| | exact Hi]; reflexivity.
  - intros _. cbn [fst]. eapply idle_fields; [| | exact Hi]; reflexivity.
  - destruct (clevel_lk prog strat cinit nodes fuel) as [HF HM].
    pose proof (cfetch_lk prog strat cinit _ HF HM nodes q [] [] s Hi) as H. unfold awp in H.
    destruct (cfetch prog strat cinit nodes (clevel prog strat cinit nodes fuel) q s) as [s' [[[[v du] ch] hs] | p |]];
      cbn [fst snd]; intros Hne; [exact H | exact H | congruence].
  - intros _. cbn [fst]. apply idle_zalsa_mut. exact Hi.
Qed.

Theorem idle_reachable nodes fuel : forall ops s, idle s ->
  Forall (fun r => r <> CFuel) (snd (crun_ops prog strat cinit nodes fuel s ops)) ->
  idle (fst (crun_ops prog strat cinit nodes fuel s ops)).
Proof.
  induction ops as [| o ops IH]; intros s Hi Hall; [exact Hi |].
  cbn [crun_ops] in *. pose proof (idle_step nodes fuel s o Hi) as Hs.
  destruct (cstep prog strat cinit nodes fuel s o) as [s1 r]. cbn [fst snd] in Hs.
  specialize (IH s1).
  destruct (crun_ops prog strat cinit nodes fuel s1 ops) as [s2 rs]. cbn [fst snd] in *.
  inversion Hall as [| ? ? Hr Hrs]; subst. apply IH; [apply Hs; exact Hr | exact Hrs].
Qed.

End Top.

(* ---------------------------------------------------------------- the sync table's assertions *)
Lemma try_claim_never_panics q allow hl s : LK hl s -> forall p, snd (try_claim q allow s) <> CPanic p.
Proof.
  intros HL p Hp. pose proof (try_claim_ok q allow hl (c_qstack s) s (conj HL eq_refl)) as H.
  unfold awp in H. destruct (try_claim q allow s) as [s' [r | p' |]]; [discriminate | exact H | discriminate].
Qed.

Lemma try_claim_cycle_exact q allow hl s : LK hl s ->
  (snd (try_claim q allow s) = COk (ClCycle false) <-> In q hl).
Proof.
  intros HL. split.
  - intros Hr. pose proof (try_claim_ok q allow hl (c_qstack s) s (conj HL eq_refl)) as H.
    unfold awp in H. destruct (try_claim q allow s) as [s' [r | p' |]]; cbn [snd] in Hr; try discriminate.
    injection Hr as ->. apply H. reflexivity.
  - intros Hq. destruct (proj1 (lk_held _ _ HL q) Hq) as (y & Hy & Ht).
    unfold try_claim, cbind, cget. rewrite Hy, Ht. reflexivity.
Qed.

Lemma drop_guard_never_panics q mode hl s :
  LK (q :: hl) s -> ~ In q (c_qstack s) -> mode_ok hl mode -> forall p, snd (drop_guard q mode s) <> CPanic p.
Proof.
  intros HL Hnq Hm p Hp. pose proof (drop_guard_ok q mode hl (c_qstack s) s (conj HL eq_refl) Hnq Hm) as H.
  unfold awp in H. destruct (drop_guard q mode s) as [s' [r | p' |]]; [discriminate | exact H | discriminate].
Qed.

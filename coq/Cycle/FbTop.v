(* Cycle/FbTop.v — (fallback cycles, C13_fresh) the fresh-revision theorem: from the initial database,
   every sequence of Gets returns spec_fallback, never runs out of fuel, never panics, and leaves a state whose
   settled memos pass the fallback certificate. *)
From Coq Require Import PeanoNat.
From Salsa Require Import Base.
From Salsa.Kern Require Import CoreK.
From Salsa.Core Require Import Spec.
From Salsa.Cycle Require Import StampK Model Spec SpecProofs FallbackProofs Cert FreshBase FbSem FbInv FbOps FbExec
     FbRound FbLoop FbFetch.

Section Top.
Context {C : bctx}.
Notation prog := (@fprog C).
Notation strat := (@fstrat C).
Notation cinit := (@fcinit C).
Notation ns := (@fns C).
Notation lvl := (@flvl C).
Notation nxt := (@fnxt C).
Notation SV := (spec_fallback prog sn cinit ns).
Notation cyc := (cycn prog sn ns).
Notation sc := (succs prog sn).

Lemma Inv_init : Inv [] [] s0.
Proof.
  constructor.
  - reflexivity.
  - reflexivity.
  - reflexivity.
  - reflexivity.
  - reflexivity.
  - constructor.
  - intros x [].
  - exact I.
  - intros q. split; [intros [] |]. intros (y & Hy & _). discriminate.
  - intros q y Hy. discriminate.
  - intros q m Hm. discriminate.
Qed.

Lemma get_step nn' fuel s q :
  (length ns <= fuel)%nat -> Inv [] [] s -> In q ns ->
  exists s', cstep prog strat cinit (S nn') fuel s (COGet q) = (s', COk (SV q)) /\ Inv [] [] s'.
Proof.
  intros Hfuel HI Hq. cbn [cstep].
  assert (H := cfetch_step (clevel prog strat cinit (S nn') fuel) fuel nn' (clevel_spec nn' fuel) [] s q HI Hq).
  cbn [length] in H. specialize (H ltac:(lia)).
  apply cwp_inv in H as (s' & [[[v du] ch] hs] & Heq & Hpost). rewrite Heq.
  destruct Hpost as (HI' & _ & _ & Hv & _). exists s'. split; [| exact HI'].
  rewrite Hv. reflexivity.
Qed.

Theorem fresh_gets nn' fuel : (length ns <= fuel)%nat ->
  forall qs s, Inv [] [] s -> (forall q, In q qs -> In q ns) ->
  exists s', crun_ops prog strat cinit (S nn') fuel s (map COGet qs) = (s', map (fun q => COk (SV q)) qs) /\
             Inv [] [] s'.
Proof.
  intros Hfuel. induction qs as [| q qs IH]; intros s HI Hin.
  - exists s. split; [reflexivity | exact HI].
  - destruct (get_step nn' fuel s q Hfuel HI (Hin q (or_introl eq_refl))) as (s1 & Hs1 & HI1).
    destruct (IH s1 HI1 (fun x Hx => Hin x (or_intror Hx))) as (s2 & Hs2 & HI2).
    exists s2. split; [| exact HI2].
    cbn [map crun_ops]. rewrite Hs1, Hs2. reflexivity.
Qed.

(* ---------------------------------------------------------------- the certificate *)
Lemma runo_of_run : forall b ein ecell (rho : qkey -> val) (sigma : qkey -> option val),
  (forall d, In d (call_trace ein ecell rho b) -> sigma d = Some (rho d)) ->
  runo ein ecell sigma b = Some (run {| e_in := ein; e_cell := ecell; e_q := rho |} b).
Proof.
  induction b as [v | i k IH | d k IH | c k IH | k IH | c k IH]; intros ein ecell rho sigma Hs; cbn.
  - reflexivity.
  - apply IH. exact Hs.
  - cbn in Hs. rewrite (Hs d (or_introl eq_refl)). apply IH. intros x Hx. apply Hs. now right.
  - apply IH. exact Hs.
  - apply IH. exact Hs.
  - apply IH. exact Hs.
Qed.

Lemma settled_done s q m : Inv [] [] s -> c_memo s q = Some m -> settled s m = true -> done s q.
Proof.
  intros HI Hm Hs. exists m. split; [exact Hm |].
  unfold settled in Hs. apply andb_true_iff in Hs as [_ Hs].
  destruct (cm_final m) eqn:Hf; [now left |]. cbn [orb] in Hs. right.
  destruct (mo_kind _ _ _ _ (iv_memo _ _ _ HI q m Hm)) as [Hk | [Hk | Hk]].
  - destruct Hk as (Hf' & _). congruence.
  - destruct Hk as (_ & (Hin & _) & _). contradiction.
  - destruct Hk as (h & it & mh & Hp & _ & Hmh & _). exists h, it, mh.
    split; [exact Hp |]. split; [exact Hmh |].
    destruct (part_heads _ _ _ _ Hp) as [Hh _]. rewrite Hh in Hs.
    cbn [heads_all_final fst snd] in Hs. unfold key_status in Hs. rewrite Hmh in Hs.
    destruct (memo_val _ _ _ _ _ HI Hmh) as (v & Hv). rewrite (status_of_val mh v Hv) in Hs.
    destruct (cm_final mh); [| discriminate].
    apply andb_true_iff in Hs as [Hs _]. apply andb_true_iff in Hs as [_ Hs]. apply N.eqb_eq in Hs.
    now split.
Qed.

Lemma done_final_val s q : Inv [] [] s -> done s q -> final_val s q = Some (SV q).
Proof.
  intros HI Hd. destruct (done_val _ _ _ _ HI Hd) as (m & Hm & Hv & _).
  unfold final_val. rewrite Hm.
  assert (Hs : settled s m = true).
  { unfold settled. rewrite (memo_verified _ _ _ _ _ HI Hm). cbn [andb].
    destruct Hd as (m' & Hm' & Hk). rewrite Hm in Hm'. injection Hm' as <-.
    destruct Hk as [Hf | (h & it & mh & Hp & Hmh & Hfh & Hit)]; [now rewrite Hf |].
    assert (Hnf : cm_final m = false) by apply Hp. rewrite Hnf. cbn [orb].
    destruct (part_heads _ _ _ _ Hp) as [Hh _]. rewrite Hh.
    cbn [heads_all_final fst snd]. unfold key_status. rewrite Hmh.
    destruct (memo_val _ _ _ _ _ HI Hmh) as (v & Hvh). rewrite (status_of_val mh v Hvh), Hfh.
    rewrite (mo_ver _ _ _ _ (iv_memo _ _ _ HI h mh Hmh)), (mo_ver _ _ _ _ (iv_memo _ _ _ HI q m Hm)).
    rewrite Hit, !N.eqb_refl. reflexivity. }
  rewrite Hs. exact Hv.
Qed.

Lemma csnap_inv s : Inv [] [] s -> csnap_of s = sn.
Proof.
  intros HI. unfold csnap_of, sn, csnap_of. rewrite (iv_in _ _ _ HI), (iv_cell _ _ _ HI). reflexivity.
Qed.

Theorem fresh_certificate s : Inv [] [] s -> is_fallback_state prog cinit ns s = true.
Proof.
  intros HI. unfold is_fallback_state. rewrite (csnap_inv s HI). unfold cert_fallback.
  apply forallb_forall. intros q Hq.
  destruct (final_val s q) as [v |] eqn:Hfv; [| reflexivity].
  assert (Hd : done s q).
  { unfold final_val in Hfv. destruct (c_memo s q) as [m |] eqn:Hm; [| discriminate].
    destruct (settled s m) eqn:Hs; [| discriminate]. eapply settled_done; eassumption. }
  rewrite (done_final_val s q HI Hd) in Hfv. injection Hfv as <-.
  destruct (done_val _ _ _ _ HI Hd) as (m & _ & _ & _ & Hsucc).
  fold (cyc q). destruct (cyc q) eqn:Hc.
  - rewrite (sv_cyc q Hc). apply N.eqb_refl.
  - rewrite (runo_of_run (prog q) (sn_in sn) (sn_cell sn) SV (final_val s)).
    + change (run _ (prog q)) with (F prog sn SV q). rewrite <- (sv_body q Hc). apply N.eqb_refl.
    + intros d Hdd. rewrite (Hdet q SV) in Hdd. apply done_final_val; [exact HI | now apply Hsucc].
Qed.

End Top.

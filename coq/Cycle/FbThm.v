(* Cycle/FbThm.v — the fresh-revision theorem for fallback cycles (C13_fresh, stage G1) with every
   hypothesis spelled out.  Class of programs: the call graph of the snapshot is input-determined,
   layered by [lvl]; the only same-level call of a node goes to [nxt] of it, [nxt] is injective and
   its edges are real calls; nodes with a same-level call are functions with cycle_result
   (strategy SFallback).  So every strongly connected component is a simple ring of fallback
   functions, entered at any member; everything else is acyclic, with any strategy.  [rank] is the
   usual witness (as in C13_spec_fallback_wd_partial) that the graph minus its cyclic nodes is
   acyclic.  No monotonicity, no bound on the values. *)
From Coq Require Import PeanoNat.
From Salsa Require Import Base.
From Salsa.Kern Require Import CoreK.
From Salsa.Core Require Import Spec.
From Salsa.Cycle Require Import StampK Model Spec SpecProofs FallbackProofs Cert FreshBase FbSem FbInv FbTop.

Theorem fallback_ring :
  forall (prog : qkey -> body) (strat : N -> strategy) (cinit : qkey -> val)
         (iv : ikey -> val) (idur : ikey -> dur) (ns : list qkey)
         (lvl : qkey -> nat) (nxt : qkey -> option qkey) (rank : qkey -> nat)
         (nodes fuel : nat) (qs : list qkey),
  let sn := csnap_of (cinit_db iv idur) in
  let cyc := fun q => mem q (cyclic_nodes (succs prog sn) ns) in
  input_determined prog sn ->
  fbring_ok_of prog strat sn ns lvl nxt ->
  (forall q q', cyc q = false -> In q' (succs prog sn q) -> cyc q' = false -> (rank q' < rank q)%nat) ->
  (forall q, (rank q < length ns)%nat) ->
  (1 <= nodes)%nat -> (length ns <= fuel)%nat -> (forall q, In q qs -> In q ns) ->
  exists s',
    crun_ops prog strat cinit nodes fuel (cinit_db iv idur) (map COGet qs)
      = (s', map (fun q => COk (spec_fallback prog sn cinit ns q)) qs) /\
    is_fallback_state prog cinit ns s' = true.
Proof.
  intros prog strat cinit iv idur ns lvl nxt rank nodes fuel qs sn cyc Hd Hr Hk1 Hk2 Hn Hfuel Hin.
  set (C := {| fprog := prog; fstrat := strat; fcinit := cinit; fiv := iv; fidur := idur; fns := ns;
               flvl := lvl; fnxt := nxt; frank := rank; fdet := Hd; fring := Hr; frank1 := Hk1; frank2 := Hk2 |}).
  destruct nodes as [| nn']; [lia |].
  destruct (@fresh_gets C nn' fuel Hfuel qs (@s0 C) (@Inv_init C) Hin) as (s' & Hrun & HI).
  exists s'. split; [exact Hrun | exact (@fresh_certificate C s' HI)].
Qed.

Print Assumptions fallback_ring.

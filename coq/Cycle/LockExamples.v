(* Cycle/LockExamples.v — the claim discipline on the nested-cycle examples (which lie outside the
   classes C12_fresh / C13_fresh are proved for): by the theorem no claim survives an operation;
   by computation the transferred-lock table is exercised (keys are transferred to an outer head
   and re-claimed by their owner) on the way. *)
From Coq Require Import PeanoNat Lia.
From Salsa Require Import Base.
From Salsa.Kern Require Import CoreK.
From Salsa.Cycle Require Import StampK Model Examples FreshExamples FbExamples LockInv LockOps LockFetch LockTop.

(* nested Fixpoint heads, every entry order: all runs end idle (by the theorem) *)
Example exn_idle : forall ops,
  Forall (fun r => r <> CFuel) (snd (crun_ops exn_prog ex_strat cinit0 3 6 (cinit_db exf_iv (fun _ => 0)) ops)) ->
  idle (fst (crun_ops exn_prog ex_strat cinit0 3 6 (cinit_db exf_iv (fun _ => 0)) ops)).
Proof. intros ops. apply idle_reachable. apply idle_init. Qed.

(* two fallback cycles through one node *)
Example exc_idle : forall ops,
  Forall (fun r => r <> CFuel) (snd (exc_run ops)) -> idle (fst (exc_run ops)).
Proof. intros ops. apply idle_reachable. apply idle_init. Qed.

(* the runs do transfer locks: after the nested run, keys are left flagged as transferred (their
   entries in the sync table are not claims) and the dependency graph's table is empty again *)
Example exn_transfers_happen :
  let s := fst (crun_ops exn_prog ex_strat cinit0 3 6 (cinit_db exf_iv (fun _ => 0)) [COGet (1, 0)]) in
  c_qstack s = [] /\ c_trans s = [] /\
  map (fun q => match c_sync s q with Some y => Some (sy_trans y, sy_twice y) | None => None end) exn_ns
  = [None; Some (true, false); Some (true, false)].
Proof. vm_compute. repeat split; reflexivity. Qed.

(* Cycle/HeadFetch.v — every level function of the Cycle model keeps the head-soundness invariant
   of Cycle/HeadInv.v, for all programs, strategies, memo tables and outcomes. *)
From Coq Require Import PeanoNat Lia.
From Salsa Require Import Base.
From Salsa.Kern Require Import CoreK.
From Salsa.Core Require Import Spec.
From Salsa.Cycle Require Import StampK Model LockInv LockOps LockFetch HeadInv HeadOps.

Section Fetch.
Variable prog : qkey -> body.
Variable strat : N -> strategy.
Variable cinit : qkey -> val.
Notation reach := (reach prog).
Notation reachR := (reachR prog).
Notation cyc := (cyc prog).
Notation heads_hok := (heads_hok prog).
Notation edges_hok := (edges_hok prog).
Notation memo_hok := (memo_hok prog).
Notation rev_hok := (rev_hok prog).
Notation MH := (MH prog).
Notation KH := (KH prog).
Notation chn := (chn prog).
Notation req := (req prog).

(* ---------------------------------------------------------------- sync operations leave memos alone *)
Definition memq {A} (m : CM A) : Prop := forall s, c_memo (fst (m s)) = c_memo s.

Lemma memq_ret {A} (a : A) : memq (cret a).
Proof. intros s; reflexivity. Qed.
Lemma memq_fail {A} p : memq (@cfail A p).
Proof. intros s; reflexivity. Qed.
Lemma memq_get : memq cget.
Proof. intros s; reflexivity. Qed.
Lemma memq_bind {A B} (m : CM A) (f : A -> CM B) : memq m -> (forall a, memq (f a)) -> memq (cbind m f).
Proof.
  intros Hm Hf s. unfold cbind. specialize (Hm s). destruct (m s) as [s1 [a | p |]]; cbn [fst] in *; try exact Hm.
  rewrite (Hf a s1). exact Hm.
Qed.
Lemma memq_modify f : (forall s, c_memo (f s) = c_memo s) -> memq (cmodify f).
Proof. intros H s. apply H. Qed.
Lemma memq_set_sync q y : memq (set_sync q y).
Proof. apply memq_modify. reflexivity. Qed.

Lemma memq_try_claim q allow : memq (try_claim q allow).
Proof.
  unfold try_claim. apply memq_bind; [apply memq_get |]. intros s.
  destruct (c_sync s q) as [y |].
  - destruct (sy_trans y).
    + destruct (trans_get (c_trans s) q).
      * destruct allow; [| apply memq_ret]. destruct (sy_twice y); [apply memq_fail |].
        apply memq_bind; [apply memq_set_sync | intros; apply memq_ret].
      * apply memq_bind; [apply memq_set_sync | intros; apply memq_ret].
    + apply memq_bind; [apply memq_set_sync | intros; apply memq_ret].
  - apply memq_bind; [apply memq_set_sync | intros; apply memq_ret].
Qed.

Lemma memq_release_state q y : memq (release_state q y).
Proof.
  unfold release_state. destruct (sy_wait y); [| apply memq_ret].
  apply memq_bind.
  - destruct (sy_twice y); [apply memq_modify; reflexivity | apply memq_ret].
  - intros _. destruct (sy_target y); [apply memq_modify; reflexivity | apply memq_ret].
Qed.

Lemma memq_drop_guard q mode : memq (drop_guard q mode).
Proof.
  destruct mode as [| | o]; cbn [drop_guard].
  - unfold release_default. apply memq_bind; [apply memq_get |]. intros s.
    destruct (c_sync s q) as [y |]; [| apply memq_fail].
    apply memq_bind; [apply memq_set_sync | intros; apply memq_release_state].
  - unfold release_self. apply memq_bind; [apply memq_get |]. intros s.
    destruct (c_sync s q) as [y |]; [| apply memq_fail].
    destruct (sy_twice y); [apply memq_set_sync |].
    apply memq_bind; [apply memq_set_sync | intros; apply memq_release_state].
  - unfold transfer. apply memq_bind; [apply memq_get |]. intros s.
    destruct (c_sync s o) as [yo |].
    + apply memq_bind; [apply memq_set_sync |]. intros _. apply memq_bind; [apply memq_get |]. intros s1.
      destruct (c_sync s1 q) as [y |]; [| apply memq_fail].
      apply memq_bind; [apply memq_set_sync |]. intros _.
      destruct (sy_trans yo && match trans_get (c_trans s1) o with None => true | Some _ => false end);
        [apply memq_fail | apply memq_modify; reflexivity].
    + apply memq_bind; [| intros; apply memq_fail].
      unfold release_default. apply memq_bind; [apply memq_get |]. intros s0.
      destruct (c_sync s0 q) as [y |]; [| apply memq_fail].
      apply memq_bind; [apply memq_set_sync | intros; apply memq_release_state].
Qed.

Lemma memq_release_panicking q s : c_memo (fst (release_panicking q s)) = c_memo s.
Proof.
  unfold release_panicking. destruct (c_sync s q) as [y |]; [| reflexivity].
  apply (memq_bind _ _ (memq_set_sync q None) (fun _ => memq_release_state q y)).
Qed.

Lemma awp_memq {A} (m : CM A) s : memq m -> awp m (fun _ s' => c_memo s' = c_memo s) (fun s' => c_memo s' = c_memo s) s.
Proof. intros H. unfold awp. specialize (H s). destruct (m s) as [s' [a | p |]]; cbn [fst] in H; auto. Qed.

Lemma try_claim_allow_not_inner q s : snd (try_claim q true s) <> COk (ClCycle true).
Proof.
  unfold try_claim, cbind, cget. destruct (c_sync s q) as [y |]; cbn; [| discriminate].
  destruct (sy_trans y); cbn; [| discriminate].
  destruct (trans_get (c_trans s) q); cbn; [| discriminate].
  destruct (sy_twice y); cbn; discriminate.
Qed.

Lemma try_claim_hok q allow hl stk s : KH hl stk s -> req hl q ->
  awp (try_claim q allow)
      (fun r s' => match r with
                   | Claimed mode => KH (q :: hl) stk s' /\ ~ In q hl /\ (mode = RDefault \/ mode = RSelfOnly)
                   | ClCycle inner => KH hl stk s' /\ (inner = false -> cyc q) /\ (allow = true -> inner = false)
                   end)
      (fun _ => False) s.
Proof.
  intros (HK & Hc & HM) Hr.
  pose proof (awp_and _ _ _ _ _ s (try_claim_ok q allow hl stk s HK) (awp_memq _ s (memq_try_claim q allow))) as H.
  assert (H3 : awp (try_claim q allow) (fun r _ => allow = true -> r <> ClCycle true) (fun _ => True) s).
  { unfold awp. destruct (try_claim q allow s) as [s' [r | p |]] eqn:E; [| exact I | exact I].
    intros -> ->. apply (try_claim_allow_not_inner q s). rewrite E. reflexivity. }
  pose proof (awp_and _ _ _ _ _ s H H3) as H4.
  eapply awp_conseq; [exact H4 | | intros s' [[[] _] _]].
  intros r s' [[A B] Cc]. destruct r as [mode | inner].
  - destruct A as (A1 & A2 & A3). split; [| split; assumption].
    split; [exact A1 |]. split; [apply chn_push; assumption | apply (MH_eq prog s s' B HM)].
  - destruct A as (A1 & A2). split; [split; [exact A1 |]; split; [exact Hc | apply (MH_eq prog s s' B HM)] |].
    split; [intros Hi; apply (reentry_cyc prog hl q Hc Hr (A2 Hi)) |].
    intros Ha. destruct inner; [exfalso; apply (Cc Ha); reflexivity | reflexivity].
Qed.

Lemma drop_guard_hok q mode hl stk s : KH (q :: hl) stk s -> ~ In q stk -> mode_ok hl mode ->
  awp (drop_guard q mode) (fun _ s' => KH hl stk s') (fun _ => False) s.
Proof.
  intros (HK & Hc & HM) Hnq Hm.
  pose proof (awp_and _ _ _ _ _ s (drop_guard_ok q mode hl stk s HK Hnq Hm) (awp_memq _ s (memq_drop_guard q mode))) as H.
  eapply awp_conseq; [exact H | | intros s' [[] _]].
  intros r s' [A B]. split; [exact A |]. split; [apply (chn_tail prog q hl Hc) | apply (MH_eq prog s s' B HM)].
Qed.

Lemma release_panicking_hok q hl stk s : ~ In q stk -> ~ In q hl -> chn hl ->
  KH (q :: hl) stk s \/ KH hl stk s -> KH hl stk (fst (release_panicking q s)).
Proof.
  intros Hnq Hnh Hc HK.
  assert (HM : MH s) by (destruct HK as [HK | HK]; apply HK).
  split; [apply (release_panicking_ok q hl stk s Hnq Hnh); destruct HK as [HK | HK]; [left | right]; apply HK |].
  split; [exact Hc | apply (MH_eq prog s _ (memq_release_panicking q s) HM)].
Qed.

(* ---------------------------------------------------------------- frames *)
Definition frame_hok (q : qkey) (fr : cframe) : Prop :=
  edges_hok q (fr_edges fr) /\ heads_hok q (fr_heads fr).

Lemma cadd_read_hok q fr d du ch hs fr' : frame_hok q fr -> reach q d -> heads_hok d hs ->
  cadd_read fr (EQ d) du ch hs = Some fr' -> frame_hok q fr'.
Proof.
  intros [He Hh] Hd Hhs. unfold cadd_read. destruct (heads_extend (fr_heads fr) hs) as [hs' |] eqn:Ex; [| discriminate].
  intros A. injection A as <-. split; cbn [fr_edges fr_heads].
  - destruct (negb (du =? D_NEVER) || negb match hs with [] => true | _ => false end); [| exact He].
    intros e Hx. apply In_add_edge' in Hx. destruct Hx as [Hx | Hx]; [apply He; exact Hx | injection Hx as ->; exact Hd].
  - intros h Hx. destruct (heads_extend_in hs _ _ Ex h Hx) as [A | A]; [apply Hh; exact A |].
    apply (heads_hok_reach prog q d hs (or_intror Hd) Hhs h A).
Qed.

Lemma cadd_simple_hok q fr i du ch : frame_hok q fr -> frame_hok q (cadd_read_simple fr (EIn i) du ch).
Proof.
  intros [He Hh]. split; cbn [cadd_read_simple fr_edges fr_heads]; [| exact Hh].
  destruct (du =? D_NEVER); [exact He |]. intros e Hx. apply In_add_edge' in Hx.
  destruct Hx as [Hx | Hx]; [apply He; exact Hx | discriminate].
Qed.

(* ---------------------------------------------------------------- the level functions *)
Definition Lf_hok (L : clower) : Prop :=
  forall d hl stk s, KH hl stk s -> req hl d ->
    awp (cl_fetch L d) (fun r s' => KH hl stk s' /\ heads_hok d (snd r)) (KH hl stk) s.
Definition Lm_hok (L : clower) : Prop :=
  forall d since hl stk s, KH hl stk s -> req hl d ->
    awp (cl_mca L d since) (fun _ s' => KH hl stk s') (KH hl stk) s.

Section Level.
Variable L : clower.
Hypothesis HF : Lf_hok L.
Hypothesis HM : Lm_hok L.
Variable nn : nat.

Lemma req_top q hl0 d : reach q d -> req (q :: hl0) d.
Proof. intros H k r A. injection A as <- _. exact H. Qed.

Lemma walk_edges_hk q hl0 stk since : forall es s, KH (q :: hl0) stk s -> edges_hok q es ->
  awp (cwalk_edges L es since) (fun _ s' => KH (q :: hl0) stk s') (KH (q :: hl0) stk) s.
Proof.
  induction es as [| [i | d] es IH]; intros s HK He; cbn [cwalk_edges].
  - apply awp_ret. exact HK.
  - apply awp_bind, awp_get. destruct (changed_after _ since); [apply awp_ret; exact HK |].
    apply IH; [exact HK | intros x Hx; apply He; right; exact Hx].
  - apply awp_bind. eapply awp_conseq; [apply (HM d since _ stk s HK); apply req_top; apply He; left; reflexivity | | intros s' B; exact B].
    intros c s' HK'. destruct c; [apply awp_ret; exact HK' |].
    apply IH; [exact HK' | intros x Hx; apply He; right; exact Hx].
Qed.

Lemma deep_verify_hk q m hl0 stk s : KH (q :: hl0) stk s -> memo_hok q m ->
  awp (cdeep_verify strat L q m) (fun r s' => KH (q :: hl0) stk s' /\ memo_hok q (snd r)) (KH (q :: hl0) stk) s.
Proof.
  intros HK Hm. unfold cdeep_verify.
  destruct (cm_untracked m); [apply awp_ret; split; assumption |].
  destruct (negb (cm_final m)); [apply awp_ret; split; assumption |].
  destruct (negb (recovers (strat_of strat q)) && negb match raw_heads m with [] => true | _ => false end);
    [apply awp_ret; split; assumption |].
  apply awp_bind. eapply awp_conseq; [apply (walk_edges_hk q hl0 stk _ _ s HK (proj1 Hm)) | | intros s' B; exact B].
  intros c s' HK'. destruct c; [apply awp_ret; split; assumption |].
  apply awp_bind. eapply awp_conseq; [apply (mark_verified_hok prog q m _ stk s' HK' Hm) | | intros s'' B; exact B].
  intros m' s'' [HK'' Hm']. apply awp_ret. split; assumption.
Qed.

Lemma verify_memo_hk q m hl0 stk s : KH (q :: hl0) stk s -> memo_hok q m ->
  awp (cverify_memo strat L q m) (fun r s' => KH (q :: hl0) stk s' /\ memo_hok q (snd r)) (KH (q :: hl0) stk) s.
Proof.
  intros HK Hm. unfold cverify_memo. apply awp_bind, awp_get.
  assert (Hsh : awp (r <- validate_may_be_provisional q m ;;
                     if fst r then m' <- cupdate_shallow q (snd r) (cshallow_verify s m) ;; cret (true, m')
                     else cdeep_verify strat L q (snd r))
                    (fun r s' => KH (q :: hl0) stk s' /\ memo_hok q (snd r)) (KH (q :: hl0) stk) s).
  { apply awp_bind. eapply awp_conseq; [apply (vmbp_hok prog q m _ stk s HK Hm) | | intros s' B; exact B].
    intros r s' [HK' Hr]. destruct (fst r); [| apply deep_verify_hk; assumption].
    apply awp_bind. eapply awp_conseq; [apply (update_shallow_hok prog q (snd r) _ _ stk s' HK' Hr) | | intros s'' B; exact B].
    intros m' s'' [HK'' Hm']. apply awp_ret. split; assumption. }
  destruct (cshallow_verify s m) eqn:Esh; [exact Hsh | exact Hsh | apply deep_verify_hk; assumption].
Qed.

Lemma run_body_hk q hl0 stk : forall b fr s, KH (q :: hl0) stk s ->
  (forall d, calls b d -> reach q d) -> frame_hok q fr ->
  awp (crun_body L b fr) (fun r s' => KH (q :: hl0) stk s' /\ frame_hok q (snd r)) (KH (q :: hl0) stk) s.
Proof.
  induction b as [v | i k IH | d k IH | c k IH | k IH | c k IH]; intros fr s HK Hc Hfr; cbn [crun_body].
  - apply awp_ret. split; assumption.
  - apply awp_bind, awp_get. apply IH; [exact HK | intros d Hd; apply Hc; econstructor; exact Hd | apply cadd_simple_hok; exact Hfr].
  - assert (Hd : reach q d) by (apply Hc; constructor).
    apply awp_bind. eapply awp_conseq; [apply (HF d _ stk s HK (req_top q hl0 d Hd)) | | intros s' B; exact B].
    intros [[[v du] ch] hs] s' [HK' Hhs]. cbn [snd] in Hhs.
    destruct (cadd_read fr (EQ d) du ch hs) as [fr' |] eqn:Ea; [| apply awp_fail; exact HK'].
    apply IH; [exact HK' | intros d' Hd'; apply Hc; econstructor; exact Hd' | apply (cadd_read_hok q fr d du ch hs fr' Hfr Hd Hhs Ea)].
  - apply awp_bind, awp_get. apply IH; [exact HK | intros d Hd; apply Hc; econstructor; exact Hd | exact Hfr].
  - apply awp_bind, awp_get. apply IH; [exact HK | intros d Hd; apply Hc; constructor; exact Hd | exact Hfr].
  - apply awp_bind, awp_get. destruct (c_pcell s c =? 0); [| apply awp_fail; exact HK].
    apply IH; [exact HK | intros d Hd; apply Hc; constructor; exact Hd | exact Hfr].
Qed.

Lemma KH_push q hl stk s : KH hl stk s -> In q hl -> KH hl (q :: stk) (cset_qstack s (q :: c_qstack s)).
Proof. intros (HK & Hc & HMm) Hq. split; [apply push_ok; assumption |]. split; [exact Hc | exact HMm]. Qed.
Lemma KH_pop q hl stk s : KH hl (q :: stk) s -> KH hl stk (cset_qstack s (tl (c_qstack s))).
Proof. intros (HK & Hc & HMm). split; [apply (pop_ok q hl stk s HK) |]. split; [exact Hc | exact HMm]. Qed.

Lemma run_query_hk q seed hl0 stk s : KH (q :: hl0) stk s ->
  awp (run_query prog L q seed) (fun r s' => KH (q :: hl0) (q :: stk) s' /\ frame_hok q (snd r)) (KH (q :: hl0) stk) s.
Proof.
  intros HK. unfold run_query. apply awp_bind, awp_get.
  apply awp_bind. unfold push_query. apply awp_modify.
  apply awp_bind. apply awp_modify.
  apply awp_on_panic.
  assert (HK1 : KH (q :: hl0) (q :: stk) (cset_runs (cset_qstack s (q :: c_qstack s)) (q :: c_runs (cset_qstack s (q :: c_qstack s))))).
  { apply (KH_sim prog _ _ (cset_qstack s (q :: c_qstack s))); [apply lksim_fields; reflexivity | reflexivity |].
    apply KH_push; [exact HK | left; reflexivity]. }
  eapply awp_conseq; [apply (run_body_hk q hl0 (q :: stk) _ _ _ HK1) | intros a s' B; exact B |].
  - intros d Hd. constructor. exact Hd.
  - split; [| intros h Hh]; destruct seed as [m |]; try (destruct (negb (cm_final m) && (cm_verified m =? ccur s)));
      cbn in *; try (intros d []); try destruct Hh.
  - intros s' B. unfold pop_query, cmodify. cbn [fst]. apply (KH_pop q _ stk s' B).
Qed.

Lemma complete_hk q fr it hl stk s : KH hl (q :: stk) s -> edges_hok q (fr_edges fr) ->
  awp (complete_cycle_query strat nn fr it)
      (fun rv s' => KH hl stk s' /\ edges_hok q (cm_edges rv) /\ raw_heads rv = []) (KH hl stk) s.
Proof.
  intros HK He. unfold complete_cycle_query. apply awp_bind, awp_get.
  apply awp_bind. unfold pop_query. apply awp_modify, awp_ret.
  split; [apply (KH_pop q hl stk s HK) |]. split.
  - cbn [complete_frame cm_edges]. apply flatten_edges_hok; [apply HK | exact He].
  - unfold raw_heads, complete_frame. cbn. reflexivity.
Qed.

Definition out_hok (q : qkey) (hl0 stk : list qkey) (r : round_out) (s' : cdb) : Prop :=
  KH (q :: hl0) stk s' /\
  match r with
  | RDone _ rv mode => mode_ok hl0 mode /\ rev_hok q rv
  | RIterate _ _ rv heads => rev_hok q rv /\ heads_hok q heads
  end.

Lemma rev_hok_heads q rv heads it b : edges_hok q (cm_edges rv) -> heads_hok q heads ->
  rev_hok q (with_final (with_heads rv heads it) b).
Proof. intros He Hh. split; [exact He |]. unfold raw_heads. cbn. exact Hh. Qed.

Lemma rev_hok_conv q rv b : rev_hok q rv -> rev_hok q (with_conv rv b).
Proof. intros H. exact H. Qed.

Lemma round_hk q ls hl0 stk s : KH (q :: hl0) stk s ->
  awp (round prog strat cinit nn L q ls) (out_hok q hl0 stk) (KH (q :: hl0) stk) s.
Proof.
  intros HK. unfold round. set (hl := q :: hl0) in *.
  apply awp_bind. eapply awp_conseq; [apply (run_query_hk q _ hl0 stk s HK) | | intros s' B; exact B].
  intros [v fr] s1 [HK1 [Hfe Hfh]]. cbn [snd] in Hfe, Hfh.
  destruct (fr_heads fr) as [| h0 hs0] eqn:Efh.
  - destruct (if stamp_is_initial (ls_iter ls) then Some stamp_default else stamp_increment (ls_iter ls)) as [it' |].
    + apply awp_bind. unfold pop_query. apply awp_modify, awp_ret. split; [apply (KH_pop q hl stk s1 HK1) |].
      split; [exact I |]. split; [exact Hfe |]. unfold raw_heads, complete_frame. cbn.
      destruct (negb (stamp_is_default it')); cbn; intros h [].
    + apply awp_on_panic. apply awp_fail. unfold pop_query, cmodify. cbn [fst]. apply (KH_pop q hl stk s1 HK1).
  - apply awp_bind. apply awp_on_panic.
    eapply awp_conseq with
      (Q := fun d s' => KH hl (q :: stk) s' /\
              match d with
              | inl (heads, oc, _) => In oc hl0 /\ heads_hok q heads
              | inr (heads, _, outer, _, _) => (forall oc, outer = Some oc -> In oc hl0) /\ heads_hok q heads
              end)
      (X := KH hl (q :: stk)).
    + apply awp_bind. eapply awp_conseq; [apply (collect_hok prog nn (h0 :: hs0) q hl (q :: stk) s1 HK1 Hfh) | | intros s' B; exact B].
      intros [[heads hm] dep] s2 [HK2 Hhd]. cbn [fst] in Hhd.
      apply awp_bind. eapply awp_conseq; [apply (outer_cycle_hok prog heads q hl (q :: stk) s2 HK2) | | intros s' B; exact B].
      intros outer s3 [HK3 Hout].
      assert (Hout' : forall oc, outer = Some oc -> In oc hl0).
      { intros oc A. destruct (Hout oc A) as [[B | B] C]; [congruence | exact B]. }
      destruct (negb dep).
      * destruct outer as [oc |]; [| apply awp_fail; exact HK3].
        destruct (stamp_increment (ls_iter ls)); [| apply awp_fail; exact HK3].
        apply awp_ret. split; [exact HK3 |]. split; [apply Hout'; reflexivity | exact Hhd].
      * apply awp_bind, awp_get.
        destruct (match ls_last ls with Some m => Some m | None => c_memo s3 q end) as [last |]; [| apply awp_fail; exact HK3].
        destruct (cm_val last); [| apply awp_fail; exact HK3].
        apply awp_ret. split; [exact HK3 |]. split; [exact Hout' | exact Hhd].
    + intros d s2 [HK2 Hd]. destruct d as [[[heads oc] it'] | [[[[heads hm] outer] last] lv]].
      * destruct Hd as [Hoc Hhd].
        apply awp_bind. eapply awp_conseq; [apply (complete_hk q fr it' hl stk s2 HK2 Hfe) | | intros s' B; exact B].
        intros rev0 s3 (HK3 & He3 & _). apply awp_ret. split; [exact HK3 |]. split; [exact Hoc |].
        apply rev_hok_heads; assumption.
      * destruct Hd as [Hoc Hhd].
        destruct (match strat_of strat q with SFallback => (cinit q, true)
                  | _ => (recover strat q lv v, recover strat q lv v =? lv) end) as [v' vc].
        apply awp_bind. eapply awp_conseq; [apply (complete_hk q fr (ls_iter ls) hl stk s2 HK2 Hfe) | | intros s' B; exact B].
        intros rev0 s3 (HK3 & He3 & Hh3).
        assert (Hrv0 : rev_hok q rev0) by (split; [exact He3 | rewrite Hh3; intros h []]).
        destruct outer as [oc |].
        -- apply awp_ret. split; [exact HK3 |]. split; [apply Hoc; reflexivity |].
           split; [exact He3 |]. unfold raw_heads. cbn. exact Hhd.
        -- apply awp_bind, awp_get.
           destruct (_ && others_converged s3 heads q).
           ++ apply awp_bind. eapply awp_conseq; [apply (map_heads_hok prog _ heads q hl stk s3 HK3) | | intros s' B; exact B].
              { intros p m Hm. apply hok_with_final. exact Hm. }
              intros ? s4 HK4. apply awp_bind. eapply awp_conseq; [apply (kh_quiet prog _ hl stk s4 (quiet_emit _) HK4) | | intros s' B; exact B].
              intros ? s5 HK5. apply awp_ret. split; [exact HK5 |]. split; [exact I | exact Hrv0].
           ++ apply awp_ret. split; [exact HK3 |]. split; [exact Hrv0 | exact Hhd].
    + intros s' B. unfold pop_query, cmodify. cbn [fst]. apply (KH_pop q hl stk s' B).
Qed.

Definition res_hok (q : qkey) (hl0 stk : list qkey) (r : val * cmemo * rmode) (s' : cdb) : Prop :=
  KH (q :: hl0) stk s' /\ mode_ok hl0 (snd r) /\ rev_hok q (snd (fst r)).

Lemma iter_loop_hk q hl0 stk : forall k ls s, KH (q :: hl0) stk s ->
  awp (iter_loop prog strat cinit k nn L q ls) (res_hok q hl0 stk) (KH (q :: hl0) stk) s.
Proof.
  induction k as [| k IH]; intros ls s HK; cbn [iter_loop]; [apply awp_nofuel |].
  apply awp_bind. eapply awp_conseq; [apply (round_hk q ls hl0 stk s HK) | | intros s' B; exact B].
  intros r s1 [HK1 Hr]. destruct r as [v rv mode | hm v rv heads].
  - apply awp_ret. split; [exact HK1 | exact Hr].
  - destruct Hr as [Hrv Hhd].
    destruct (stamp_increment (N.max (ls_iter ls) hm)) as [it' |]; [| apply awp_fail; exact HK1].
    apply awp_bind. eapply awp_conseq; [apply (kh_quiet prog _ _ stk s1 (quiet_emit _) HK1) | | intros s' B; exact B].
    intros ? s2 HK2. apply awp_bind.
    eapply awp_conseq; [apply (map_heads_hok prog _ heads q _ stk s2 HK2) | | intros s' B; exact B].
    { intros p m Hm. apply hok_with_iteration_count. exact Hm. }
    intros ? s3 HK3. apply awp_bind, awp_get. apply awp_bind.
    eapply awp_conseq; [apply (put_hok prog q _ _ stk s3 HK3) | | intros s' B; exact B].
    { split; [exact (proj1 Hrv) |]. intros _. unfold raw_heads. cbn. apply heads_hok_update. exact Hhd. }
    intros ? s4 [HK4 _]. apply IH. exact HK4.
Qed.

Lemma execute_iterate_hk q old hl0 stk s : KH (q :: hl0) stk s ->
  awp (execute_iterate prog strat cinit nn L q old) (res_hok q hl0 stk) (KH (q :: hl0) stk) s.
Proof.
  intros HK. unfold execute_iterate. apply awp_bind, awp_get.
  assert (Hloop : forall ls, awp (on_panic (iter_loop prog strat cinit LOOP_FUEL nn L q ls) (poison q))
                    (res_hok q hl0 stk) (KH (q :: hl0) stk) s).
  { intros ls. apply awp_on_panic.
    eapply awp_conseq; [apply (iter_loop_hk q hl0 stk LOOP_FUEL ls s HK) | intros a s' B; exact B |].
    intros s' B. apply poison_hok. exact B. }
  apply awp_bind.
  destruct old as [o |].
  - destruct (cm_verified o =? ccur s).
    + destruct (negb (stamp_ccount (iter_of o) =? c_ccount s)); [apply awp_ret; apply Hloop |].
      destruct (cm_val o); [apply awp_ret; apply Hloop | apply awp_fail; exact HK].
    + apply awp_ret. apply Hloop.
  - apply awp_ret. apply Hloop.
Qed.

Lemma execute_panic_hk q old hl0 stk s : KH (q :: hl0) stk s ->
  awp (execute_panic prog L q old) (fun r s' => KH (q :: hl0) stk s' /\ rev_hok q (snd (fst r))) (KH (q :: hl0) stk) s.
Proof.
  intros HK. unfold execute_panic. apply awp_bind.
  eapply awp_conseq; [apply (run_query_hk q old hl0 stk s HK) | | intros s' B; exact B].
  intros [v fr] s1 [HK1 [Hfe Hfh]]. cbn [snd] in Hfe, Hfh.
  apply awp_bind. unfold pop_query. apply awp_modify, awp_ret.
  split; [apply (KH_pop q _ stk s1 HK1) |]. cbn [fst snd].
  destruct (fr_heads fr) as [| h hs] eqn:Eh.
  - split; [exact Hfe |]. unfold raw_heads, complete_frame. cbn. intros x [].
  - split; [exact Hfe |]. unfold raw_heads. cbn. exact Hfh.
Qed.

Lemma cbackdate_hok q old v rv rv1 : rev_hok q rv -> cbackdate old v rv = COk rv1 -> rev_hok q rv1.
Proof.
  intros H. unfold cbackdate. destruct old as [o |]; [| intros A; injection A as <-; exact H].
  destruct (_ && _); [| intros A; injection A as <-; exact H].
  destruct (changed_after (cm_changed o) (cm_changed rv)); [discriminate |]. intros A. injection A as <-. exact H.
Qed.

Lemma discard_hok q rv : rev_hok q rv -> rev_hok q (cdiscard_edges rv).
Proof.
  intros [A B]. unfold cdiscard_edges. destruct (_ && _); [| split; assumption].
  split; [intros d [] | exact B].
Qed.

Lemma cexecute_hk q mode0 old hl0 stk s : KH (q :: hl0) stk s -> ~ In q stk -> mode_ok hl0 mode0 ->
  awp (cexecute prog strat cinit nn L q mode0 old) (fun m s' => KH hl0 stk s' /\ memo_hok q m) (KH (q :: hl0) stk) s.
Proof.
  intros HK Hnq Hm0. unfold cexecute.
  apply awp_bind. eapply awp_conseq; [apply (kh_quiet prog _ _ stk s (quiet_emit _) HK) | | intros s' B; exact B].
  intros ? s1 HK1. apply awp_bind.
  eapply awp_conseq with (Q := res_hok q hl0 stk) (X := KH (q :: hl0) stk).
  - destruct (recovers (strat_of strat q)).
    + apply (execute_iterate_hk q old hl0 stk s1 HK1).
    + apply awp_bind. eapply awp_conseq; [apply (execute_panic_hk q old hl0 stk s1 HK1) | | intros s' B; exact B].
      intros [[v rv] md] s2 [HK2 Hrv]. apply awp_ret. split; [exact HK2 |]. split; [exact Hm0 | exact Hrv].
  - intros [[v rv] mode] s2 (HK2 & Hm & Hrv). cbn [fst snd] in Hm, Hrv.
    destruct (cbackdate old v rv) as [rv1 | p |] eqn:Eb; [| apply awp_fail; exact HK2 | apply awp_nofuel].
    pose proof (discard_hok q rv1 (cbackdate_hok q old v rv rv1 Hrv Eb)) as Hd.
    apply awp_bind, awp_get. apply awp_bind.
    eapply awp_conseq; [apply (put_hok prog q _ _ stk s2 HK2) | | intros s' B; exact B].
    { split; [exact (proj1 Hd) | intros _; exact (proj2 Hd)]. }
    intros ? s3 [HK3 _]. apply awp_bind.
    eapply awp_conseq; [apply (drop_guard_hok q mode hl0 stk s3 HK3 Hnq Hm) | | intros s' []].
    intros ? s4 HK4. apply awp_ret. split; [exact HK4 |].
    split; [exact (proj1 Hd) | intros _; exact (proj2 Hd)].
  - intros s' B. exact B.
Qed.

Lemma cfetch_cold_hk q hl stk s : KH hl stk s -> req hl q ->
  awp (cfetch_cold prog strat cinit nn L q) (fun m s' => KH hl stk s' /\ memo_hok q m) (KH hl stk) s.
Proof.
  intros HK Hr. unfold cfetch_cold. apply awp_bind.
  eapply awp_conseq; [apply (try_claim_hok q true hl stk s HK Hr) | | intros s' []].
  intros c s1 Hc. destruct c as [mode | inner].
  - destruct Hc as (HK1 & Hnq & Hmode).
    assert (Hns : ~ In q stk).
    { intros Hin. apply Hnq. apply (lk_stack _ _ (proj1 (proj1 HK))). rewrite (proj2 (proj1 HK)). exact Hin. }
    assert (Hmo : mode_ok hl mode) by (destruct Hmode as [-> | ->]; exact I).
    apply awp_on_panic.
    eapply awp_conseq with (Q := fun m s' => KH hl stk s' /\ memo_hok q m) (X := fun s' => KH (q :: hl) stk s' \/ KH hl stk s').
    + apply awp_bind, awp_get. apply awp_bind.
      eapply awp_conseq with (Q := fun ok s' => KH (q :: hl) stk s' /\ forall m, ok = Some m -> memo_hok q m)
                             (X := fun s' => KH (q :: hl) stk s' \/ KH hl stk s').
      * destruct (c_memo s1 q) as [m |] eqn:Em; [| apply awp_ret; split; [exact HK1 | intros m A; discriminate]].
        destruct (cm_val m); [| apply awp_ret; split; [exact HK1 | intros m0 A; discriminate]].
        apply awp_bind. eapply awp_conseq; [apply (verify_memo_hk q m hl stk s1 HK1 (proj2 (proj2 HK1) q m Em)) | | intros s' B; left; exact B].
        intros r s2 [HK2 Hr2]. apply awp_ret. split; [exact HK2 |].
        intros m0 A. destruct (fst r); [injection A as <-; exact Hr2 | discriminate].
      * intros ok s2 [HK2 Hok]. destruct ok as [m |].
        -- apply awp_bind. eapply awp_conseq; [apply (drop_guard_hok q mode hl stk s2 HK2 Hns Hmo) | | intros s' []].
           intros ? s3 HK3. apply awp_ret. split; [exact HK3 | apply Hok; reflexivity].
        -- eapply awp_conseq; [apply (cexecute_hk q mode _ hl stk s2 HK2 Hns Hmo) | intros a s' B; exact B | intros s' B; left; exact B].
      * intros s' B. exact B.
    + intros a s' B. exact B.
    + intros s' B. apply (release_panicking_hok q hl stk s' Hns Hnq (proj1 (proj2 HK)) B).
  - destruct Hc as (HK1 & Hcy & Hin).
    apply (fetch_cold_cycle_hok prog strat cinit q hl stk s1 HK1 (Hcy (Hin eq_refl))).
Qed.

Lemma cfetch_hk q hl stk s : KH hl stk s -> req hl q ->
  awp (cfetch prog strat cinit nn L q) (fun r s' => KH hl stk s' /\ heads_hok q (snd r)) (KH hl stk) s.
Proof.
  intros HK Hr. unfold cfetch. apply awp_bind.
  eapply awp_conseq; [apply (fetch_hot_hok prog q hl stk s HK) | | intros s' B; exact B].
  intros hot s1 [HK1 Hhot]. apply awp_bind.
  eapply awp_conseq with (Q := fun m s' => KH hl stk s' /\ memo_hok q m) (X := KH hl stk).
  - destruct hot as [m |]; [apply awp_ret; split; [exact HK1 | apply Hhot; reflexivity] |].
    apply (cfetch_cold_hk q hl stk s1 HK1 Hr).
  - intros m s2 [HK2 Hm]. destruct (cm_val m) eqn:Ev; [| apply awp_fail; exact HK2].
    apply awp_ret. split; [exact HK2 |]. cbn [snd]. unfold heads_of.
    destruct (cm_final m); [intros h [] | apply (proj2 Hm); congruence].
  - intros s' B. exact B.
Qed.

Lemma cmca_cold_hk q since hl stk s : KH hl stk s -> req hl q ->
  awp (cmca_cold prog strat cinit nn L q since) (fun _ s' => KH hl stk s') (KH hl stk) s.
Proof.
  intros HK Hr. unfold cmca_cold. apply awp_bind.
  eapply awp_conseq; [apply (try_claim_hok q false hl stk s HK Hr) | | intros s' []].
  intros c s1 Hc. destruct c as [mode | inner].
  - destruct Hc as (HK1 & Hnq & Hmode).
    assert (Hns : ~ In q stk).
    { intros Hin. apply Hnq. apply (lk_stack _ _ (proj1 (proj1 HK))). rewrite (proj2 (proj1 HK)). exact Hin. }
    assert (Hmo : mode_ok hl mode) by (destruct Hmode as [-> | ->]; exact I).
    assert (Hdrop : forall (b : bool) s2, KH (q :: hl) stk s2 ->
              awp (drop_guard q mode ;;; cret b) (fun _ s' => KH hl stk s') (fun s' => KH (q :: hl) stk s' \/ KH hl stk s') s2).
    { intros b s2 HK2. apply awp_bind.
      eapply awp_conseq; [apply (drop_guard_hok q mode hl stk s2 HK2 Hns Hmo) | | intros s' []].
      intros ? s3 HK3. apply awp_ret. exact HK3. }
    apply awp_on_panic.
    eapply awp_conseq with (Q := fun _ s' => KH hl stk s') (X := fun s' => KH (q :: hl) stk s' \/ KH hl stk s').
    + apply awp_bind, awp_get.
      destruct (c_memo s1 q) as [old |] eqn:Em; [| apply Hdrop; exact HK1].
      apply awp_bind. eapply awp_conseq; [apply (verify_memo_hk q old hl stk s1 HK1 (proj2 (proj2 HK1) q old Em)) | | intros s' B; left; exact B].
      intros r s2 [HK2 _]. destruct (fst r); [apply Hdrop; exact HK2 |].
      destruct (negb (cm_final (snd r))); [apply Hdrop; exact HK2 |].
      destruct (cm_val old); [| apply Hdrop; exact HK2].
      apply awp_bind.
      eapply awp_conseq; [apply (cexecute_hk q mode _ hl stk s2 HK2 Hns Hmo) | | intros s' B; left; exact B].
      intros mnew s3 [HK3 _]. apply awp_ret. exact HK3.
    + intros a s' B. exact B.
    + intros s' B. apply (release_panicking_hok q hl stk s' Hns Hnq (proj1 (proj2 HK)) B).
  - destruct Hc as (HK1 & _). destruct (recovers (strat_of strat q)); [apply awp_ret; exact HK1 | apply awp_fail; exact HK1].
Qed.

Lemma cmca_hk q since hl stk s : KH hl stk s -> req hl q ->
  awp (cmca prog strat cinit nn L q since) (fun _ s' => KH hl stk s') (KH hl stk) s.
Proof.
  intros HK Hr. unfold cmca. apply awp_bind, awp_get.
  destruct (c_memo s q) as [m |] eqn:Em; [| apply awp_ret; exact HK].
  assert (Hhot : forall u, awp (if cm_final m then m' <- cupdate_shallow q m u ;; cret (changed_after (cm_changed m') since)
                                else cmca_cold prog strat cinit nn L q since) (fun _ s' => KH hl stk s') (KH hl stk) s).
  { intros u. destruct (cm_final m); [| apply cmca_cold_hk; assumption].
    apply awp_bind. eapply awp_conseq; [apply (update_shallow_hok prog q m u hl stk s HK (proj2 (proj2 HK) q m Em)) | | intros s' B; exact B].
    intros m' s' [HK' _]. apply awp_ret. exact HK'. }
  destruct (cshallow_verify s m); [apply Hhot | apply Hhot | apply cmca_cold_hk; assumption].
Qed.

End Level.

Theorem clevel_hk nodes : forall n, Lf_hok (clevel prog strat cinit nodes n) /\ Lm_hok (clevel prog strat cinit nodes n).
Proof.
  induction n as [| n [IHF IHM]].
  - split; [intros q hl stk s _ _ | intros q since hl stk s _ _]; exact I.
  - split.
    + intros q hl stk s HK Hr. cbn [clevel cl_fetch]. apply (cfetch_hk _ IHF IHM nodes q hl stk s HK Hr).
    + intros q since hl stk s HK Hr. cbn [clevel cl_mca]. apply (cmca_hk _ IHF IHM nodes q since hl stk s HK Hr).
Qed.

End Fetch.


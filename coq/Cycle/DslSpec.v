(* Cycle/DslSpec.v — which DSL programs (Core/Dsl.v) are the monotone bit-set programs of the
   `cycles` profile: a decidable syntactic class, and the direct-style value of an expression.
   Definitions only; the facts are in Cycle/DslProofs.v. *)
From Salsa Require Import Base.
From Salsa.Core Require Import Model Spec Dsl.

(* direct-style value of an expression under a read environment *)
Fixpoint deval (nk : N) (e : env) (x : expr) : val :=
  match x with
  | ELit v => v
  | EInp i f => e_in e (i, f)
  | ECall fam ke => e_q e (fam, deval nk e ke mod nk)
  | ECell c => e_cell e c
  | ETouch => 0
  | EPanicIf _ => 0
  | EOp o a b => binop_eval o (deval nk e a) (deval nk e b)
  | EIf c a b => if deval nk e c =? 0 then deval nk e b else deval nk e a
  end.

(* no call inside: the value depends on inputs (and cells) only *)
Fixpoint input_only (x : expr) : bool :=
  match x with
  | ECall _ _ => false
  | EOp _ a b => input_only a && input_only b
  | EIf c a b => input_only c && input_only a && input_only b
  | _ => true
  end.

(* the expressions of the `cycles` profile *)
Fixpoint mono_expr (x : expr) : bool :=
  match x with
  | ELit v => v <? 256
  | EInp _ _ => true
  | ECall _ ke => input_only ke
  | EOp BOr a b | EOp BAnd a b => mono_expr a && mono_expr b
  | EIf c a b => input_only c && mono_expr a && mono_expr b
  | _ => false
  end.

(* every node of the table is an expression of the profile *)
Definition mono_table (tbl : list (qkey * expr)) : bool :=
  forallb (fun p => mono_expr (snd p)) tbl.


(* Cycle/EpochExamples.v — the hypothesis [same_epoch_rounds c] of C15_bounded_partial is too strong
   for c <> 0: a single-head cycle reports hm = stamp_default (cancellation count 0) whatever the
   epoch is.  (vm_compute is used only here.) *)
From Salsa Require Import Base.
From Salsa.Kern Require Import CoreK.
From Salsa.Cycle Require Import StampK Model ModelProofs Examples EpochInv EpochTop.

(* after one cancellation-count bump, node (1,0) of the two-node cycle holds its claim *)
Definition exe_state : cdb := fst (try_claim (1, 0) true (czalsa_mut (cinit_db ex12_iv (fun _ => 0)))).
Definition exe_ls : lstate := {| ls_iter := stamp_initial 1; ls_last := None; ls_old := None |}.

Example exe_round :
  exists s' rv,
    round ex12_prog ex_strat ex_cinit 12 (clevel ex12_prog ex_strat ex_cinit 12 12) (1, 0) exe_ls exe_state
    = (s', COk (RIterate 0 7 rv [((1, 0), 256)])).
Proof. vm_compute. eexists. eexists. reflexivity. Qed.

(* the state is a legitimate one: the epoch invariant holds, the loop state is well formed *)
Example exe_state_ok : c_ccount exe_state = 1 /\ loop_inv 1 exe_ls.
Proof. split; [reflexivity |]. split; [split; vm_compute; congruence | reflexivity]. Qed.

Example same_epoch_rounds_too_strong :
  ~ same_epoch_rounds ex12_prog ex_strat ex_cinit 12 (clevel ex12_prog ex_strat ex_cinit 12 12) (1, 0) 1.
Proof.
  intros H. destruct exe_round as (s' & rv & Hr).
  destruct (H exe_ls exe_state s' 0 7 rv _ Hr) as [_ Hc]. vm_compute in Hc. discriminate.
Qed.

(* Cycle/FreshBase.v — tools for the fresh-revision theorem: a total-correctness wp for the
   Cycle model's monad, stamp arithmetic at cancellation count 0, and the list facts about the
   query stack (levels, segments, bottoms). *)
From Coq Require Import PeanoNat.
From Salsa Require Import Base.
From Salsa.Kern Require Import CoreK.
From Salsa.Cycle Require Import StampK Model.

(* ---------------------------------------------------------------- wp: terminates with a value *)
Definition cwp {A} (m : CM A) (Q : cdb -> A -> Prop) (s : cdb) : Prop :=
  match m s with
  | (s', COk a) => Q s' a
  | _ => False
  end.

Lemma cwp_ret {A} (a : A) (Q : cdb -> A -> Prop) s : Q s a -> cwp (cret a) Q s.
Proof. intros H. exact H. Qed.

Lemma cwp_bind {A B} (m : CM A) (f : A -> CM B) (Q : cdb -> B -> Prop) s :
  cwp m (fun s' a => cwp (f a) Q s') s -> cwp (cbind m f) Q s.
Proof.
  unfold cwp, cbind. destruct (m s) as [s' [a | p |]]; intros H; try contradiction. exact H.
Qed.

Lemma cwp_get (Q : cdb -> cdb -> Prop) s : Q s s -> cwp cget Q s.
Proof. intros H. exact H. Qed.

Lemma cwp_modify f (Q : cdb -> unit -> Prop) s : Q (f s) tt -> cwp (cmodify f) Q s.
Proof. intros H. exact H. Qed.

Lemma cwp_conseq {A} (m : CM A) (Q Q' : cdb -> A -> Prop) s :
  cwp m Q s -> (forall s' a, Q s' a -> Q' s' a) -> cwp m Q' s.
Proof.
  unfold cwp. destruct (m s) as [s' [a | p |]]; intros H HQ; try contradiction. now apply HQ.
Qed.

Lemma cwp_on_panic {A} (m : CM A) h (Q : cdb -> A -> Prop) s : cwp m Q s -> cwp (on_panic m h) Q s.
Proof.
  unfold cwp, on_panic. destruct (m s) as [s' [a | p |]]; intros H; try contradiction. exact H.
Qed.

Lemma cwp_inv {A} (m : CM A) (Q : cdb -> A -> Prop) s : cwp m Q s -> exists s' a, m s = (s', COk a) /\ Q s' a.
Proof.
  unfold cwp. destruct (m s) as [s' [a | p |]]; intros H; try contradiction. now exists s', a.
Qed.

Lemma cwp_intro {A} (m : CM A) (Q : cdb -> A -> Prop) s s' a : m s = (s', COk a) -> Q s' a -> cwp m Q s.
Proof. unfold cwp. intros -> H. exact H. Qed.

Lemma cwp_emit e (Q : cdb -> unit -> Prop) s : Q (cset_log s (e :: c_log s)) tt -> cwp (cemit e) Q s.
Proof. intros H. exact H. Qed.

(* ---------------------------------------------------------------- stamps at cancellation count 0 *)
Lemma stamp_initial_0 : stamp_initial 0 = 0.
Proof. reflexivity. Qed.

Lemma stamp_ccount_small n : n < 256 -> stamp_ccount n = 0.
Proof.
  intros H. unfold stamp_ccount, Kernels.k_stamp_cancellation_count.
  rewrite N.div_small by exact H. reflexivity.
Qed.

Lemma stamp_iteration_small n : n < 256 -> stamp_iteration n = n.
Proof. intros H. unfold stamp_iteration, Kernels.k_stamp_iteration. now apply N.mod_small. Qed.

Lemma stamp_is_initial_small n : n < 256 -> stamp_is_initial n = (n =? 0).
Proof.
  intros H. unfold stamp_is_initial, Kernels.k_stamp_is_initial_iteration, Kernels.k_stamp_iteration.
  rewrite N.mod_small by exact H. reflexivity.
Qed.

Lemma stamp_is_default_eq n : stamp_is_default n = (n =? 0).
Proof. reflexivity. Qed.

Lemma stamp_increment_small n : n < 200 -> stamp_increment n = Some (n + 1).
Proof.
  intros H. unfold stamp_increment, Kernels.k_stamp_increment_iteration, Kernels.k_stamp_iteration,
    Kernels.k_MAX_ITERATIONS.
  rewrite (N.mod_small (n + 1) 65536) by lia.
  rewrite (N.mod_small (n + 1) 256) by lia.
  destruct (N.leb_spec (n + 1) 200); [reflexivity | lia].
Qed.

(* ---------------------------------------------------------------- the query stack *)
Section Stack.
Variable lvl : qkey -> nat.

(* what lies under the first occurrence of h *)
Fixpoint below (st : list qkey) (h : qkey) : list qkey :=
  match st with
  | [] => []
  | q :: r => if key_eqb q h then r else below r h
  end.

Lemma below_incl st h : incl (below st h) st.
Proof.
  induction st as [| q r IH]; cbn; [intros x Hx; exact Hx |].
  destruct (key_eqb q h).
  - intros x Hx. now right.
  - intros x Hx. right. now apply IH.
Qed.

Lemma below_either st h h' : In h st -> In h' st -> h <> h' ->
  In h' (below st h) \/ In h (below st h').
Proof.
  induction st as [| q r IH]; intros Hh Hh' Hne; [contradiction |].
  cbn. destruct (key_eqb_spec q h) as [-> | Hqh].
  - left. destruct Hh' as [Heq | Hin]; [congruence | exact Hin].
  - destruct (key_eqb_spec q h') as [-> | Hqh'].
    + right. destruct Hh as [Heq | Hin]; [congruence | exact Hin].
    + destruct Hh as [Heq | Hh]; [congruence |]. destruct Hh' as [Heq | Hh']; [congruence |].
      now apply IH.
Qed.

(* levels never decrease going down the stack *)
Fixpoint mono (st : list qkey) : Prop :=
  match st with
  | [] => True
  | q :: r => (forall q', In q' r -> (lvl q <= lvl q')%nat) /\ mono r
  end.

Lemma mono_below st h : mono st -> In h st -> forall q', In q' (below st h) -> (lvl h <= lvl q')%nat.
Proof.
  induction st as [| q r IH]; intros Hm Hh q' Hq'; [contradiction |].
  cbn in Hq'. destruct Hm as [Hq Hm]. destruct (key_eqb_spec q h) as [-> | Hne].
  - now apply Hq.
  - destruct Hh as [Heq | Hh]; [congruence |]. now apply IH.
Qed.

(* h is the entry of its level: everything under it is strictly higher *)
Definition bottom (st : list qkey) (h : qkey) : Prop :=
  In h st /\ forall q', In q' (below st h) -> (lvl h < lvl q')%nat.

Lemma bottom_unique st h h' : bottom st h -> bottom st h' -> lvl h = lvl h' -> h = h'.
Proof.
  intros [Hh Hb] [Hh' Hb'] Hl. destruct (key_eqb_spec h h') as [-> | Hne]; [reflexivity |].
  destruct (below_either st h h' Hh Hh' Hne) as [Hin | Hin].
  - apply Hb in Hin. lia.
  - apply Hb' in Hin. lia.
Qed.

Lemma bottom_push st h d : d <> h -> bottom st h -> bottom (d :: st) h.
Proof.
  intros Hne [Hh Hb]. split; [now right |]. cbn. apply key_eqb_neq in Hne. rewrite Hne. exact Hb.
Qed.

Lemma bottom_pop st h d : d <> h -> bottom (d :: st) h -> bottom st h.
Proof.
  intros Hne [Hh Hb]. cbn in Hb. apply key_eqb_neq in Hne. rewrite Hne in Hb.
  split; [| exact Hb]. destruct Hh as [Heq | Hh]; [| exact Hh]. apply key_eqb_neq in Hne. congruence.
Qed.

(* the entry of the top segment *)
Fixpoint botof_from (cur : qkey) (r : list qkey) : qkey :=
  match r with
  | [] => cur
  | q' :: r' => if Nat.eqb (lvl q') (lvl cur) then botof_from q' r' else cur
  end.

Definition botof (st : list qkey) : option qkey :=
  match st with
  | [] => None
  | q :: r => Some (botof_from q r)
  end.

Lemma botof_from_lvl r : forall cur, lvl (botof_from cur r) = lvl cur.
Proof.
  induction r as [| q' r' IH]; intros cur; cbn; [reflexivity |].
  destruct (Nat.eqb_spec (lvl q') (lvl cur)) as [He | Hne]; [| reflexivity].
  rewrite IH. exact He.
Qed.

Lemma botof_from_in r : forall cur, In (botof_from cur r) (cur :: r).
Proof.
  induction r as [| q' r' IH]; intros cur; cbn; [now left |].
  destruct (Nat.eqb (lvl q') (lvl cur)); [| now left].
  right. apply IH.
Qed.

Lemma botof_from_bottom r : forall cur, mono (cur :: r) -> NoDup (cur :: r) ->
  forall q', In q' (below (cur :: r) (botof_from cur r)) -> (lvl cur < lvl q')%nat.
Proof.
  induction r as [| q1 r' IH]; intros cur Hm Hnd q' Hq'.
  - cbn in Hq'. rewrite key_eqb_refl in Hq'. contradiction.
  - cbn [botof_from] in Hq'. destruct (Nat.eqb_spec (lvl q1) (lvl cur)) as [He | Hne].
    + cbn [below] in Hq'.
      destruct (key_eqb_spec cur (botof_from q1 r')) as [Heq | Hneq].
      * exfalso. apply NoDup_cons_iff in Hnd as [Hnin Hnd']. apply Hnin. rewrite Heq. apply botof_from_in.
      * rewrite <- He. destruct Hm as [_ Hm]. apply NoDup_cons_iff in Hnd as [Hnin Hnd'].
        now apply IH.
    + cbn [below] in Hq'. rewrite key_eqb_refl in Hq'.
      destruct Hm as [Hc Hm]. destruct Hq' as [<- | Hq'].
      * assert (H1 := Hc q1 (or_introl eq_refl)). lia.
      * destruct Hm as [Hq1 _]. assert (H1 := Hc q1 (or_introl eq_refl)).
        assert (H2 := Hq1 q' Hq'). lia.
Qed.

Lemma botof_bottom st b : mono st -> NoDup st -> botof st = Some b ->
  bottom st b /\ (forall q r, st = q :: r -> lvl b = lvl q).
Proof.
  intros Hm Hnd Hb. destruct st as [| q r]; [discriminate |]. cbn in Hb. injection Hb as <-.
  split.
  - split; [apply botof_from_in |]. intros q' Hq'. rewrite botof_from_lvl.
    now apply (botof_from_bottom r q Hm Hnd).
  - intros q0 r0 Heq. injection Heq as <- <-. apply botof_from_lvl.
Qed.

Lemma botof_push_same d q r : lvl d = lvl q -> botof (d :: q :: r) = botof (q :: r).
Proof. intros H. cbn. rewrite H, Nat.eqb_refl. reflexivity. Qed.

Lemma botof_push_new d q r : lvl d <> lvl q -> botof (d :: q :: r) = Some d.
Proof. intros H. cbn. destruct (Nat.eqb_spec (lvl q) (lvl d)); [congruence | reflexivity]. Qed.

End Stack.

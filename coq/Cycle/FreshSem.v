(* Cycle/FreshSem.v — semantic facts used by the fresh-revision theorem (C12_fresh):
   the "cut" program (one node replaced by a constant), its least fixpoint [Kc h x], and how it
   relates to the least fixpoint [kleene] of the program itself.  No model here. *)
From Coq Require Import PeanoNat.
From Salsa Require Import Base.
From Salsa.Core Require Import Model Spec.
From Salsa.Cycle Require Import Spec SpecProofs.

(* ---------------------------------------------------------------- lattice odds and ends *)
Lemma lor_ub_l a b : le_bits a (N.lor a b).
Proof.
  unfold le_bits. apply N.bits_inj. intros n. rewrite N.land_spec, N.lor_spec.
  destruct (N.testbit a n), (N.testbit b n); reflexivity.
Qed.

Lemma lor_ub_r a b : le_bits b (N.lor a b).
Proof.
  unfold le_bits. apply N.bits_inj. intros n. rewrite N.land_spec, N.lor_spec.
  destruct (N.testbit a n), (N.testbit b n); reflexivity.
Qed.

Lemma lor_lub a b c : le_bits a c -> le_bits b c -> le_bits (N.lor a b) c.
Proof.
  intros Ha Hb. unfold le_bits. apply N.bits_inj. intros n.
  rewrite N.land_spec, N.lor_spec.
  assert (Ha' := le_bits_testbit a c n Ha). assert (Hb' := le_bits_testbit b c n Hb).
  destruct (N.testbit a n) eqn:Ea; destruct (N.testbit b n) eqn:Eb; cbn;
    try (rewrite (Ha' eq_refl)); try (rewrite (Hb' eq_refl)); reflexivity.
Qed.

Lemma lor_eq_le a b : N.lor a b = a -> le_bits b a.
Proof. intros H. rewrite <- H. apply lor_ub_r. Qed.

Lemma lor_lt256' a b : a < 256 -> b < 256 -> N.lor a b < 256.
Proof.
  intros Ha Hb.
  assert (Hl : forall c, c < 256 -> N.log2 c < 8).
  { intros c Hc. destruct (N.eq_dec c 0) as [-> | Hc0]; [cbn; lia |].
    apply N.log2_lt_pow2; [lia | exact Hc]. }
  destruct (N.eq_dec (N.lor a b) 0) as [-> | Hnz]; [lia |].
  apply N.log2_lt_pow2 with (b := 8); [lia |].
  rewrite N.log2_lor. apply N.max_lub_lt; apply Hl; assumption.
Qed.

(* ---------------------------------------------------------------- run reads only its call trace *)
Lemma run_ext_trace : forall b ein ecell rho rho',
  (forall d, In d (call_trace ein ecell rho b) -> rho d = rho' d) ->
  run {| e_in := ein; e_cell := ecell; e_q := rho |} b =
  run {| e_in := ein; e_cell := ecell; e_q := rho' |} b.
Proof.
  induction b as [v | i k IH | q k IH | c k IH | k IH | c k IH]; intros ein ecell rho rho' Hext; cbn.
  - reflexivity.
  - apply IH. exact Hext.
  - cbn in Hext. rewrite <- (Hext q (or_introl eq_refl)). apply IH.
    intros d Hd. apply Hext. right. exact Hd.
  - apply IH. exact Hext.
  - apply IH. exact Hext.
  - apply IH. exact Hext.
Qed.

(* static reachability along the (input-determined) call graph *)
Inductive reach (prog : qkey -> body) (sn : snapshot) : qkey -> qkey -> Prop :=
| reach_refl p : reach prog sn p p
| reach_step p d h : In d (succs prog sn p) -> reach prog sn d h -> reach prog sn p h.

Section Cut.
Variable prog : qkey -> body.
Variable sn : snapshot.
Variable ns : list qkey.
Hypothesis Hmono : monotone_prog prog sn.
Hypothesis Hfits : fits8 prog sn.
Hypothesis Hdet : input_determined prog sn.

Notation K := (kleene prog sn ns).

Lemma F_ext_succs rho rho' q :
  (forall d, In d (succs prog sn q) -> rho d = rho' d) -> F prog sn rho q = F prog sn rho' q.
Proof.
  intros H. unfold F. apply run_ext_trace. intros d Hd. apply H.
  rewrite <- (Hdet q rho). exact Hd.
Qed.

Lemma K_lt q : K q < 256.
Proof. rewrite kleene_R. apply R_lt; assumption. Qed.

Lemma K_fix q : In q ns -> F prog sn K q = K q.
Proof. apply kleene_is_fixpoint; assumption. Qed.

(* the program with node h replaced by the constant x *)
Definition cutp (h : qkey) (x : val) (q : qkey) : body := if key_eqb q h then Ret x else prog q.
Definition Kc (h : qkey) (x : val) : qkey -> val := kleene (cutp h x) sn ns.

Lemma F_cut_h h x rho : F (cutp h x) sn rho h = x.
Proof. unfold F, cutp. rewrite key_eqb_refl. reflexivity. Qed.

Lemma F_cut_other h x rho q : q <> h -> F (cutp h x) sn rho q = F prog sn rho q.
Proof. intros Hne. unfold F, cutp. apply key_eqb_neq in Hne. rewrite Hne. reflexivity. Qed.

Lemma cut_mono h x : monotone_prog (cutp h x) sn.
Proof.
  intros q rho rho' Hle. destruct (key_eqb_spec q h) as [-> | Hne].
  - rewrite !F_cut_h. apply le_bits_refl.
  - rewrite !F_cut_other by exact Hne. apply Hmono, Hle.
Qed.

Lemma cut_fits h x : x < 256 -> fits8 (cutp h x) sn.
Proof.
  intros Hx q rho Hrho. destruct (key_eqb_spec q h) as [-> | Hne].
  - rewrite F_cut_h. exact Hx.
  - rewrite F_cut_other by exact Hne. apply Hfits, Hrho.
Qed.

Lemma Kc_lt h x q : x < 256 -> Kc h x q < 256.
Proof. intros Hx. unfold Kc. rewrite kleene_R. apply R_lt. apply cut_fits, Hx. Qed.

(* S2 *)
Lemma Kc_head h x : x < 256 -> In h ns -> Kc h x h = x.
Proof.
  intros Hx Hh. unfold Kc.
  rewrite <- (kleene_is_fixpoint (cutp h x) sn ns (cut_mono h x) (cut_fits h x Hx) h Hh).
  apply F_cut_h.
Qed.

(* S3 *)
Lemma Kc_fix h x d : x < 256 -> In d ns -> d <> h -> F prog sn (Kc h x) d = Kc h x d.
Proof.
  intros Hx Hd Hne. rewrite <- (F_cut_other h x _ d Hne).
  apply (kleene_is_fixpoint (cutp h x) sn ns (cut_mono h x) (cut_fits h x Hx) d Hd).
Qed.

(* S4 *)
Lemma Kc_below h x : le_bits x (K h) -> env_le (Kc h x) K.
Proof.
  intros Hx. unfold Kc. apply kleene_least; [apply cut_mono |].
  intros q Hq. destruct (key_eqb_spec q h) as [-> | Hne].
  - rewrite F_cut_h. exact Hx.
  - rewrite F_cut_other by exact Hne. rewrite (K_fix q Hq). apply le_bits_refl.
Qed.

(* S5 *)
Lemma Kc_mono h x x' : x' < 256 -> In h ns -> le_bits x x' -> env_le (Kc h x) (Kc h x').
Proof.
  intros Hx' Hh Hle. unfold Kc at 1. apply kleene_least; [apply cut_mono |].
  intros q Hq. destruct (key_eqb_spec q h) as [-> | Hne].
  - rewrite F_cut_h. rewrite (Kc_head h x' Hx' Hh). exact Hle.
  - rewrite F_cut_other by exact Hne. rewrite (Kc_fix h x' q Hx' Hq Hne). apply le_bits_refl.
Qed.

(* S6: a converged head value makes the cut fixpoint the least fixpoint *)
Lemma Kc_converged h x : x < 256 -> In h ns -> le_bits x (K h) ->
  le_bits (F prog sn (Kc h x) h) x -> forall p, Kc h x p = K p.
Proof.
  intros Hx Hh Hle Hconv p. apply le_bits_antisym; [apply Kc_below, Hle |].
  apply kleene_least; [exact Hmono |].
  intros q Hq. destruct (key_eqb_spec q h) as [-> | Hne].
  - rewrite (Kc_head h x Hx Hh). exact Hconv.
  - rewrite (Kc_fix h x q Hx Hq Hne). apply le_bits_refl.
Qed.

(* the head's transfer function *)
Definition G (h : qkey) (x : val) : val := F prog sn (Kc h x) h.

Lemma G_mono h x x' : x' < 256 -> In h ns -> le_bits x x' -> le_bits (G h x) (G h x').
Proof. intros Hx' Hh Hle. unfold G. apply Hmono. now apply Kc_mono. Qed.

Lemma G_below h x : In h ns -> le_bits x (K h) -> le_bits (G h x) (K h).
Proof.
  intros Hh Hle. unfold G. rewrite <- (K_fix h Hh). apply Hmono. now apply Kc_below.
Qed.

Lemma G_lt h x : x < 256 -> G h x < 256.
Proof. intros Hx. unfold G. apply Hfits. intros p. now apply Kc_lt. Qed.

(* S7: nodes that cannot reach h do not see the cut *)
Lemma R_cut_indep h x n : forall p, ~ reach prog sn p h ->
  R (cutp h x) sn ns n p = R prog sn ns n p.
Proof.
  induction n as [| n IH]; intros p Hnr; cbn [R]; [reflexivity |].
  destruct (mem p ns); [| reflexivity].
  assert (Hne : p <> h). { intros ->. apply Hnr. constructor. }
  rewrite (F_cut_other h x _ p Hne).
  apply F_ext_succs. intros d Hd. apply IH.
  intros Hr. apply Hnr. econstructor; eassumption.
Qed.

Lemma Kc_indep h x p : ~ reach prog sn p h -> Kc h x p = K p.
Proof.
  intros Hnr. unfold Kc. rewrite !kleene_R. now apply R_cut_indep.
Qed.

End Cut.

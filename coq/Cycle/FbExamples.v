(* Cycle/FbExamples.v — non-vacuity of the fresh-revision theorem for fallback cycles
   (Cycle/FbThm.v): a 3-node ring of fallback functions (non-monotone bodies) over a plain leaf,
   under a fallback function that is NOT on a cycle and a plain caller, satisfies every hypothesis;
   runs entered at each member; a program with two cycles through one node (outside the proved
   class) checked by computation.  vm_compute is used only here. *)
From Coq Require Import PeanoNat.
From Salsa Require Import Base.
From Salsa.Kern Require Import CoreK.
From Salsa.Core Require Spec.
From Salsa.Cycle Require Import StampK Model Spec Cert SpecProofs FallbackProofs Examples FbInv FbThm.

(* ring (family 3, cycle_result = 0xA5):  f0 = in(0,0) | (f1 & leaf) ;  f1 = f2 + 1 ;  f2 = f0 xor 7
   leaf (family 0):  leaf = in(0,1) + 3
   f3 (family 3, on no cycle):  f3 = f0 + 2         top (family 0):  top = 2 * f3 *)
Definition exb_prog (q : qkey) : body :=
  if key_eqb q (3, 0) then
    RdIn (0, 0) (fun a => CallQ (3, 1) (fun b => CallQ (0, 0) (fun c => Ret (N.lor a (N.land b c)))))
  else if key_eqb q (3, 1) then CallQ (3, 2) (fun b => Ret (b + 1))
  else if key_eqb q (3, 2) then CallQ (3, 0) (fun b => Ret (N.lxor b 7))
  else if key_eqb q (0, 0) then RdIn (0, 1) (fun a => Ret (a + 3))
  else if key_eqb q (3, 3) then CallQ (3, 0) (fun b => Ret (b + 2))
  else if key_eqb q (0, 1) then CallQ (3, 3) (fun b => Ret (2 * b))
  else Ret 0.

Definition exb_ns : list qkey := [(3, 0); (3, 1); (3, 2); (0, 0); (3, 3); (0, 1)].
Definition exb_lvl (q : qkey) : nat :=
  if key_eqb q (0, 0) then 0 else if key_eqb q (3, 3) then 2 else if key_eqb q (0, 1) then 3 else 1.
Definition exb_nxt (q : qkey) : option qkey :=
  if key_eqb q (3, 0) then Some (3, 1)
  else if key_eqb q (3, 1) then Some (3, 2)
  else if key_eqb q (3, 2) then Some (3, 0)
  else None.
Definition exb_rank (q : qkey) : nat :=
  if key_eqb q (3, 3) then 1 else if key_eqb q (0, 1) then 2 else 0.
Definition exb_iv (i : ikey) : val := if key_eqb i (0, 0) then 8 else if key_eqb i (0, 1) then 4 else 0.
Definition exb_sn := csnap_of (cinit_db exb_iv (fun _ => 0)).

Lemma exb_cases (P : qkey -> Prop) :
  P (3, 0) -> P (3, 1) -> P (3, 2) -> P (0, 0) -> P (3, 3) -> P (0, 1) ->
  (forall q, exb_prog q = Ret 0 -> exb_nxt q = None -> P q) -> forall q, P q.
Proof.
  intros H0 H1 H2 H3 H4 H5 Hr q. unfold exb_prog, exb_nxt in Hr.
  destruct (key_eqb_spec q (3, 0)) as [-> | N0]; [exact H0 |].
  destruct (key_eqb_spec q (3, 1)) as [-> | N1]; [exact H1 |].
  destruct (key_eqb_spec q (3, 2)) as [-> | N2]; [exact H2 |].
  destruct (key_eqb_spec q (0, 0)) as [-> | N3]; [exact H3 |].
  destruct (key_eqb_spec q (3, 3)) as [-> | N4]; [exact H4 |].
  destruct (key_eqb_spec q (0, 1)) as [-> | N5]; [exact H5 |].
  apply Hr.
  - apply key_eqb_neq in N0, N1, N2, N3, N4, N5. now rewrite N0, N1, N2, N3, N4, N5.
  - apply key_eqb_neq in N0, N1, N2. now rewrite N0, N1, N2.
Qed.

Example exb_determined sn : input_determined exb_prog sn.
Proof.
  intros q ans. revert q. apply exb_cases; unfold succs; try (intros q Hq _; rewrite Hq); reflexivity.
Qed.

Example exb_ring sn : fbring_ok_of exb_prog ex_strat sn exb_ns exb_lvl exb_nxt.
Proof.
  split; [| split; [| split]].
  - intros q d Hq Hd. unfold exb_ns in Hq. cbn [In] in Hq.
    destruct Hq as [<- | [<- | [<- | [<- | [<- | [<- | []]]]]]]; cbn in Hd;
      repeat (destruct Hd as [<- | Hd]; [split; [cbn; tauto | cbn; first [left; lia | right; reflexivity]] |]);
      contradiction.
  - intros q. pattern q. apply exb_cases; try (intros q0 _ Hn d Hd; rewrite Hn in Hd; discriminate);
      intros d Hd; cbn in Hd; first [discriminate Hd | injection Hd as <-; (split; [reflexivity |]); split; reflexivity].
  - intros a. pattern a. apply exb_cases; try (intros a0 _ Hn b c Ha; rewrite Hn in Ha; discriminate);
      intros b; pattern b; apply exb_cases; try (intros b0 _ Hn c _ Hb; rewrite Hn in Hb; discriminate);
      intros c Ha Hb; cbn in Ha, Hb; first [discriminate Ha | discriminate Hb | congruence].
  - intros q. pattern q. apply exb_cases; try (intros q0 _ Hn d Hd; rewrite Hn in Hd; discriminate);
      intros d Hd; cbn in Hd; first [discriminate Hd | injection Hd as <-; cbn; tauto].
Qed.

(* the cyclic nodes of the example are exactly the ring *)
Example exb_cyclic : cyclic_nodes (succs exb_prog exb_sn) exb_ns = [(3, 0); (3, 1); (3, 2)].
Proof. vm_compute. reflexivity. Qed.

Example exb_rank_ok :
  let cyc := fun q => mem q (cyclic_nodes (succs exb_prog exb_sn) exb_ns) in
  (forall q q', cyc q = false -> In q' (succs exb_prog exb_sn q) -> cyc q' = false -> (exb_rank q' < exb_rank q)%nat) /\
  (forall q, (exb_rank q < length exb_ns)%nat).
Proof.
  split.
  - intros q. pattern q. apply exb_cases;
      try (intros q0 Hq _ q' _ Hin; unfold succs in Hin; rewrite Hq in Hin; contradiction);
      intros q' Hc Hin; vm_compute in Hc; try discriminate Hc; cbn in Hin;
      repeat (destruct Hin as [<- | Hin]; [intros Hc'; vm_compute in Hc'; try discriminate Hc'; vm_compute; lia |]);
      contradiction.
  - intros q. unfold exb_rank. destruct (key_eqb q (3, 3)); [cbn; lia |]. destruct (key_eqb q (0, 1)); cbn; lia.
Qed.

(* the theorem applies: whatever the entry order, subset or repetition *)
Example exb_fresh : forall (qs : list qkey), (forall q, In q qs -> In q exb_ns) ->
  exists s',
    crun_ops exb_prog ex_strat ex_cinit 6 6 (cinit_db exb_iv (fun _ => 0)) (map COGet qs)
      = (s', map (fun q => COk (spec_fallback exb_prog exb_sn ex_cinit exb_ns q)) qs) /\
    is_fallback_state exb_prog ex_cinit exb_ns s' = true.
Proof.
  intros qs Hqs. destruct exb_rank_ok as [Hk1 Hk2].
  apply (fallback_ring exb_prog ex_strat ex_cinit exb_iv (fun _ => 0) exb_ns exb_lvl exb_nxt exb_rank 6 6 qs).
  - apply exb_determined.
  - apply exb_ring.
  - exact Hk1.
  - exact Hk2.
  - lia.
  - cbn. lia.
  - exact Hqs.
Qed.

Definition exb_outs (ops : list cop) : list cout :=
  snd (crun_ops exb_prog ex_strat ex_cinit 6 6 (cinit_db exb_iv (fun _ => 0)) ops).

(* the specification: fallback on the ring, bodies elsewhere (leaf = 7, f3 = 165 + 2, top = 334) *)
Example exb_spec :
  map (spec_fallback exb_prog exb_sn ex_cinit exb_ns) exb_ns = [165; 165; 165; 7; 167; 334].
Proof. vm_compute. reflexivity. Qed.

(* the ring entered at each member first, and from above *)
Example exb_enter_each :
  exb_outs [COGet (3, 0); COGet (3, 1); COGet (3, 2)] = [COk 165; COk 165; COk 165] /\
  exb_outs [COGet (3, 1); COGet (3, 2); COGet (3, 0)] = [COk 165; COk 165; COk 165] /\
  exb_outs [COGet (3, 2); COGet (3, 0); COGet (3, 1)] = [COk 165; COk 165; COk 165] /\
  exb_outs [COGet (0, 1); COGet (3, 2); COGet (3, 3); COGet (0, 0); COGet (3, 1)]
    = [COk 334; COk 165; COk 167; COk 7; COk 165].
Proof. vm_compute. repeat split; reflexivity. Qed.

(* two cycles through one node (outside the class the theorem is proved for): g0 <-> g1 and
   g1 <-> g2; every entry order returns the fallback for all three, the certificate holds *)
Definition exc_prog (q : qkey) : body :=
  if key_eqb q (3, 0) then RdIn (0, 0) (fun a => CallQ (3, 1) (fun b => Ret (a + b)))
  else if key_eqb q (3, 1) then CallQ (3, 0) (fun a => CallQ (3, 2) (fun b => Ret (N.lxor a b)))
  else if key_eqb q (3, 2) then CallQ (3, 1) (fun a => Ret (a + 1))
  else Ret 0.
Definition exc_ns : list qkey := [(3, 0); (3, 1); (3, 2)].
Definition exc_run (ops : list cop) :=
  crun_ops exc_prog ex_strat ex_cinit 3 6 (cinit_db exb_iv (fun _ => 0)) ops.

Example exc_two_cycles :
  snd (exc_run [COGet (3, 0); COGet (3, 1); COGet (3, 2)]) = [COk 165; COk 165; COk 165] /\
  snd (exc_run [COGet (3, 1); COGet (3, 2); COGet (3, 0)]) = [COk 165; COk 165; COk 165] /\
  snd (exc_run [COGet (3, 2); COGet (3, 0); COGet (3, 1)]) = [COk 165; COk 165; COk 165] /\
  is_fallback_state exc_prog ex_cinit exc_ns (fst (exc_run [COGet (3, 2); COGet (3, 0); COGet (3, 1)])) = true.
Proof. vm_compute. repeat split; reflexivity. Qed.

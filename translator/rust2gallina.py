#!/usr/bin/env python3
# rust2gallina.py -- layer K translator: reads a fixed manifest of const items / function
# bodies from /repo/src and emits Gallina definitions over N (coq/gen/Kernels.v) plus a
# JSON digest.  python3 stdlib only.  Fails closed: anything outside the accepted subset is
# a translation failure (exit 2, message names the kernel).
#
#   python3 rust2gallina.py --repo /repo --out /verif/coq/gen/Kernels.v \
#                           --digest /verif/coq/gen/kernels.json
#
# See README.md in this directory for the accepted subset, idioms and the trusted base.

import argparse
import hashlib
import json
import os
import sys

sys.path.insert(0, os.path.dirname(os.path.abspath(__file__)))

import rustfront as rf                                   # noqa: E402
from rustfront import toks_text                          # noqa: E402
import gir                                               # noqa: E402
from gir import num, var, app                            # noqa: E402
from r2g_core import (Fail, Def, RecordDef, Sources, World, Tr, BOOL, UNIT, tint,   # noqa: E402
                      under, gtype, same_type)
from r2g_fn import FnTr                                  # noqa: E402
from manifest import MANIFEST, PRELUDE                   # noqa: E402


class KernelFail(Exception):
    def __init__(self, kernel, msg):
        Exception.__init__(self, "kernel %s: %s" % (kernel, msg))
        self.kernel = kernel


def derives_of(item):
    out = set()
    for a in item.attrs:
        if a.startswith("derive ("):
            inner = a[len("derive ("):].rstrip(")")
            for part in inner.split(","):
                part = part.strip()
                if part:
                    out.add(part.split("::")[-1].strip())
    return out


def repr_of(item):
    for a in item.attrs:
        if a.startswith("repr ("):
            return a[len("repr ("):].rstrip(" )").strip()
    return None


# --------------------------------------------------------------------------- item kinds

def do_enum(w, spec):
    rel, name = spec["file"], spec["name"]
    it = w.sources.find(rel, "enum", name)
    src_entry = w.sources.source_entry(rel, it)
    try:
        ename, variants = rf.parse_enum(it)
    except rf.ParseError as e:
        raise Fail("cannot parse enum: %s" % e)
    rep = repr_of(it)
    disc_ty = tint(rep) if rep in ("u8", "u16", "u32", "u64", "usize") else tint("usize")
    if rep not in (None, "u8", "u16", "u32", "u64", "usize"):
        raise Fail("unsupported repr(%s)" % rep)
    tr = Tr(w, spec, rel, it.toks)
    w.derives[name] = derives_of(it)
    table = {}
    prev = None
    values = []
    for v, disc, payload in variants:
        if payload:
            raise Fail("enum %s has a variant with fields" % name)
        if disc is not None:
            term, ty = tr.expr(disc, {}, disc_ty)
            if under(ty)[0] != "int":
                raise Fail("discriminant of %s::%s is not an integer" % (name, v))
            val = w.const_value(term)
        else:
            val = 0 if prev is None else prev + 1
            term = num(val)
        prev = val
        values.append(val)
        g = "%s%s" % (spec.get("prefix", "k_%s_" % name), v)
        d = Def(g, [], ("enum", name), term, sources=[src_entry])
        d.value = val
        w.add(d)
        table[v] = g
    if len(set(values)) != len(values):
        raise Fail("enum %s has duplicate discriminants" % name)
    w.enums[name] = table
    if spec.get("variants") is not None and [v for v, _, _ in variants] != spec["variants"]:
        raise Fail("enum %s: variants changed (expected %s)" % (name, spec["variants"]))


def do_struct(w, spec):
    rel, name = spec["file"], spec["name"]
    it = w.sources.find(rel, "struct", name)
    src_entry = w.sources.source_entry(rel, it)
    try:
        sname, form, fields = rf.parse_struct(it)
    except rf.ParseError as e:
        raise Fail("cannot parse struct: %s" % e)
    tr = Tr(w, spec, rel, it.toks)
    w.derives[name] = derives_of(it)
    ftys = [(f, tr.resolve_type(t)) for f, t in fields]
    if len(ftys) == 1:
        w.structs[name] = ("newtype", ftys[0][0], ftys[0][1])
        d = Def("k_T_%s" % name, [], UNIT, ("pair", []), sources=[src_entry])
        d.kind = "typeonly"
        d.note = "newtype %s(%s) is represented by its field" % (name, gtype(ftys[0][1]))
        w.by_name[d.name] = d
        w.typeonly.append(d)
        return
    if form != "named" or len(ftys) < 2:
        raise Fail("struct %s has an unsupported shape" % name)
    rd = RecordDef(name, ftys, [src_entry])
    w.structs[name] = ("record", rd)
    w.add(rd)


def do_const(w, spec):
    rel, name = spec["file"], spec["name"]
    container = spec.get("impl")
    it = w.sources.find(rel, "const", name, container=container)
    src_entry = w.sources.source_entry(rel, it)
    try:
        cname, cty, cexpr = rf.parse_const(it)
    except rf.ParseError as e:
        raise Fail("cannot parse const: %s" % e)
    self_ty = None
    tr = Tr(w, spec, rel, it.toks, container=container)
    if container is not None and container in w.structs:
        tr.self_ty = tr.named_type(container)
    ty = tr.resolve_type(cty)
    term, ety = tr.expr(cexpr, {}, ty)
    if ety != ty and not same_type(ety, ty):
        raise Fail("const %s: declared type %r, expression type %r" % (name, ty, ety))
    if tr.pending:
        raise Fail("const %s: partial call in a constant" % name)
    d = Def(spec["g"], [], ty, term, sources=[src_entry])
    d.value = w.const_value(term)
    if not isinstance(d.value, (int, bool)):
        raise Fail("const %s does not evaluate to a number" % name)
    w.add(d)
    w.consts[(container if container else rel, name)] = d


def conj(terms):
    out = terms[0]
    for t in terms[1:]:
        out = app("andb", out, t)
    return out


def disj(terms):
    out = terms[0]
    for t in terms[1:]:
        out = app("orb", out, t)
    return out


def do_fn(w, spec):
    rel, name = spec["file"], spec["name"]
    container = spec.get("impl")
    it = w.sources.find(rel, "fn", name, container=container, trait=spec.get("trait"),
                        mod=spec.get("mod"))
    sources = [w.sources.source_entry(rel, it)]
    try:
        sig = rf.parse_fn(it)
    except rf.ParseError as e:
        raise Fail("cannot parse signature: %s" % e)

    def make_tr():
        tr = FnTr(w, spec, rel, it.toks, container=container)
        if container is not None and container in w.structs:
            tr.self_ty = tr.named_type(container)
        return tr

    tr0 = make_tr()
    params = []
    for gp, (gname_, gty) in spec.get("generic_consts", {}).items():
        params.append((gname_, gty))
    generic_params = [p[0] for p in params]
    env = {}
    places = dict(spec.get("places", {}))
    state_place = spec.get("state_place")
    arr = spec.get("array")
    if arr is not None:
        n = None
        lend = w.by_name.get(arr["len"])
        if lend is None:
            raise Fail("array length constant %s not emitted" % arr["len"])
        n = w.const_value(var(lend.name))
        if arr["mode"] == "read":
            for s in arr["slots"](n):
                params.append((s, arr["elem"]))
        else:
            params.append((arr["slot_index"], tint("usize")))
            for k_ in sorted(arr["known_slots"]):
                params.append((arr["known_slots"][k_], arr["elem"]))
            params.append((arr["slot_cur"], arr["elem"]))
    for pl, (pname, pty) in places.items():
        if (pname, pty) not in params and pname not in [p[0] for p in params]:
            params.append((pname, pty))
    by_value_mut = False
    if sig.self_kind is not None:
        if spec.get("self_opaque"):
            pass
        else:
            if tr0.self_ty is None:
                raise Fail("self of a type outside the manifest")
            sty = tr0.self_ty
            params.append(("self", sty))
            env["self"] = (var("self"), sty)
            if sty[0] == "newtype":
                fld = w.structs[sty[1]][1]
                fty = w.structs[sty[1]][2]
                if fty[0] == "atomic":
                    places["self . %s" % fld] = ("self", fty)
                    state_place = "self . %s" % fld
                elif sig.self_kind == "mut self":
                    places["self . %s" % fld] = ("self", fty)
                    by_value_mut = True
    drop = set(spec.get("drop_params", []))
    if spec.get("idiom"):
        drop = set(pn for pn, _ in sig.params)
    seen_drop = set()
    rename = spec.get("rename", {})
    for pn, pty_node in sig.params:
        if pn in drop:
            seen_drop.add(pn)
            continue
        pty = tr0.resolve_type(pty_node)
        if pty[0] in ("array", "list", "unit", "atomic"):
            raise Fail("parameter %s has an unsupported type" % pn)
        g = rename.get(pn, pn)
        params.append((g, pty))
        env[pn] = (var(g), pty)
    for en, ety in spec.get("extra_params", []):
        params.append((en, ety))
    if seen_drop != drop:
        raise Fail("parameters to ignore are missing from the signature: %s"
                   % sorted(drop - seen_drop))
    if spec.get("param_order"):
        order = spec["param_order"]
        byname = dict(params)
        if sorted(order) != sorted(byname):
            raise Fail("param_order does not match the parameters %s" % sorted(byname))
        params = [(n_, byname[n_]) for n_ in order]
    if "ret_override" in spec:
        ret_ty = spec["ret_override"]
    elif spec.get("idiom"):
        ret_ty = UNIT
    elif sig.ret is None:
        ret_ty = UNIT
    else:
        ret_ty = tr0.resolve_type(sig.ret)

    idiom = spec.get("idiom")
    if idiom is not None:
        return do_serde_idiom(w, spec, it, sig, sources, params, env, make_tr, idiom)

    try:
        body = rf.parse_body(it, sig)
    except rf.ParseError as e:
        raise Fail("body is outside the accepted subset: %s" % e)

    def run(state_out):
        tr = make_tr()
        tr.setup(ret_ty)
        tr.places = dict(places)
        tr.state_out = state_out
        if state_place is not None:
            tr.state_name = places[state_place][0]
        term = tr.body(body, env)
        if tr.pending:
            raise Fail("internal: unflushed partial calls")
        return tr, term

    tr, term = run(None)
    state_out = None
    if tr.wrote and not by_value_mut and not (arr is not None and arr["mode"] == "slot"):
        if state_place is None:
            raise Fail("function writes state but the manifest declares no state place")
        state_out = "state" if ret_ty == UNIT else "pair"
        tr, term = run(state_out)
    sources += tr.extra_sources

    if arr is not None and arr["mode"] == "slot":
        out_ty = arr["elem"]
    elif state_out == "state":
        out_ty = places[state_place][1]
    elif state_out == "pair":
        out_ty = ("tuple", [ret_ty, places[state_place][1]])
    else:
        out_ty = ret_ty
    if tr.partial:
        out_ty = ("option", out_ty)
    fv = gir.free_vars(term) - set(gir.gname(p) for p, _ in params) - set(p for p, _ in params)
    fv = set(v for v in fv if v not in w.by_name and not v.startswith("k_"))
    if fv:
        raise Fail("internal: free variables %s in the emitted body" % sorted(fv))
    # drop parameters that the body never mentions?  No: keep the signature stable.
    d = Def(spec["g"], params, out_ty, term, partial=tr.partial, sources=sources)
    d.state_out = state_out
    d.generic_params = generic_params
    w.add(d)
    w.methods[(container if container else rel, name)] = d
    fn_params = params
    if tr.pre:
        p = Def(spec["g"] + "_pre", fn_params, BOOL, conj(tr.pre), sources=sources)
        p.note = "conjunction of the debug_assert!s of %s" % name
        w.add(p)
    if tr.rejects:
        own = [(n_, t_) for n_, t_ in params
               if n_ in [rename.get(pn, pn) for pn, _ in sig.params]]
        r = Def(spec.get("g_rejects", spec["g"] + "_rejects"), own, BOOL, disj(tr.rejects),
                sources=sources)
        r.note = "true iff an assert!/assert_ne! of %s fails (panic)" % name
        w.add(r)
    if getattr(tr, "bounds", None):
        own = [(n_, t_) for n_, t_ in params
               if n_ in [rename.get(pn, pn) for pn, _ in sig.params]]
        b = Def(spec["g"] + "_in_bounds", own, BOOL, conj(tr.bounds), sources=sources)
        b.note = "slice range of %s is within the array (else: panic)" % name
        w.add(b)


def do_serde_idiom(w, spec, it, sig, sources, params, env, make_tr, idiom):
    toks = it.toks
    lo, hi = sig.body
    tr = make_tr()
    tr.setup(UNIT)
    p = rf.Parser(toks, lo, hi)
    try:
        e = p.parse_expr(0)
        if not p.at_end():
            p.err("trailing tokens")
    except rf.ParseError as ex:
        raise Fail("serde idiom: %s" % ex)
    if idiom == "serde_ser":
        # serde::Serialize::serialize(&E, serializer)
        if not (e.kind == "call" and tr.text(e.f) == "serde :: Serialize :: serialize"
                and len(e.args) == 2 and tr.text(e.args[1]) == "serializer"
                and e.args[0].kind == "un" and e.args[0].op == "&"):
            raise Fail("body is not `serde::Serialize::serialize(&E, serializer)`")
        term, ty = tr.expr(e.args[0].e, env, None)
        ps = [(n_, t_) for n_, t_ in params if n_ == "self"]
        d = Def(spec["g"], ps, ty, term, sources=sources)
        d.note = "persisted form: the value handed to the serializer"
        w.add(d)
        return
    if idiom == "serde_de":
        # serde::Deserialize::deserialize(deserializer).map(PATH)
        if not (e.kind == "mcall" and e.name == "map" and len(e.args) == 1
                and e.args[0].kind == "path"
                and tr.text(e.recv) == "serde :: Deserialize :: deserialize ( deserializer )"):
            raise Fail("body is not `serde::Deserialize::deserialize(deserializer).map(F)`")
        segs = e.args[0].segs
        scope = spec.get("impl") if segs[0] == "Self" else segs[0]
        fd = w.methods.get((scope, segs[-1])) if len(segs) == 2 else None
        if fd is None or len(fd.params) != 1:
            raise Fail("mapped function %s is not a unary kernel" % "::".join(segs))
        raw = ("raw", fd.params[0][1])
        d = Def(spec["g"], [raw], fd.ret, app(fd.name, var("raw")), partial=fd.partial,
                sources=sources)
        d.note = "restored value: F applied to the deserialized raw value"
        w.add(d)
        return
    raise Fail("unknown idiom %s" % idiom)


# --------------------------------------------------------------------------- sites

def find_fn_tokens(w, spec):
    rel = spec["file"]
    it = w.sources.find(rel, "fn", spec["name"], container=spec.get("impl"),
                        trait=spec.get("trait"))
    sig = rf.parse_fn(it)
    return rel, it, sig


def do_site(w, spec):
    rel, it, sig = find_fn_tokens(w, spec)
    toks = it.toks
    lo, hi = sig.body
    sources = [w.sources.source_entry(rel, it)]
    tr = Tr(w, spec, rel, toks, container=spec.get("impl"))
    # expected let initialisers (token level)
    for lname, expected in spec.get("expect_lets", {}).items():
        found = []
        i = lo
        while i < hi:
            if rf.is_id(toks[i], "let") and rf.is_id(toks[i + 1], lname) and rf.is_p(toks[i + 2], "="):
                j = i + 3
                while not rf.is_p(toks[j], ";"):
                    if toks[j].kind == "p" and toks[j].val in rf.OPEN:
                        j = rf.match_close(toks, j)
                    j += 1
                found.append(toks_text(toks[i + 3:j]))
                i = j
            i += 1
        if found != [expected]:
            raise Fail("`let %s = ...` changed: expected [%s], found %s" % (lname, expected, found))
    # sanity: every parameter named in the manifest must be a parameter of the function
    for pn in spec.get("expect_params", []):
        if pn not in [p for p, _ in sig.params]:
            raise Fail("parameter %s is missing from the signature" % pn)
    mention = spec["mention"]
    cands = []
    mode = spec["find"]
    i = lo
    while i < hi:
        t = toks[i]
        if mode == "if" and rf.is_id(t, "if") and not rf.is_id(toks[i + 1], "let"):
            p = rf.Parser(toks, i, hi)
            try:
                node = p.parse_prefix(False)
            except rf.ParseError:
                # an `if` whose branches are outside the subset: parse the condition only
                p = rf.Parser(toks, i + 1, hi)
                try:
                    cond = p.parse_expr(0, no_struct=True)
                except rf.ParseError as ex:
                    raise Fail("cannot parse an if condition: %s" % ex)
                node = rf.Node("if", i, p.i, cond=cond, then=None, els=None)
            ctoks = toks[node.cond.lo:node.cond.hi]
            if any(rf.is_id(x, mention) for x in ctoks):
                cands.append(node)
        if mode == "call_arg" and t.kind == "id":
            p = rf.Parser(toks, i, hi)
            path = spec["callee"].split("::")
            ok = True
            j = i
            for k_, seg in enumerate(path):
                if not rf.is_id(toks[j], seg):
                    ok = False
                    break
                j += 1
                if k_ + 1 < len(path):
                    if not rf.is_p(toks[j], "::"):
                        ok = False
                        break
                    j += 1
            if ok and rf.is_p(toks[j], "(") and not (i > lo and rf.is_p(toks[i - 1], "::")):
                close = rf.match_close(toks, j)
                p = rf.Parser(toks, j + 1, close)
                try:
                    arg = p.parse_expr(0)
                    if not p.at_end():
                        p.err("more than one argument")
                except rf.ParseError as ex:
                    raise Fail("cannot parse the argument of %s: %s" % (spec["callee"], ex))
                cands.append(arg)
        if mode == "tail_conj":
            break
        i += 1
    if mode == "tail_conj":
        p = rf.Parser(toks, lo, hi)
        try:
            stmts, tail = p.parse_stmts()
        except rf.ParseError as ex:
            raise Fail("body is outside the accepted subset: %s" % ex)
        if stmts or tail is None:
            raise Fail("body is not a single expression")
        cands = [tail]
    if len(cands) != spec.get("count", 1):
        raise Fail("expected %d matching site(s) mentioning `%s`, found %d"
                   % (spec.get("count", 1), mention, len(cands)))
    node = cands[spec.get("index", 0)]

    def select(e, op, others):
        """split a chain of `op`; keep the unique operand mentioning `mention`"""
        parts = []

        def flat(x):
            while x.kind == "paren":
                x = x.e
            if x.kind == "bin" and x.op == op:
                flat(x.l)
                flat(x.r)
            else:
                parts.append(x)
        flat(e)
        keep = [x for x in parts if any(rf.is_id(t, mention) for t in toks[x.lo:x.hi])]
        rest = [tr.text(x) for x in parts if x not in keep]
        if len(keep) != 1:
            raise Fail("expected exactly one operand of `%s` mentioning `%s`" % (op, mention))
        if sorted(rest) != sorted(others):
            raise Fail("the other operands of `%s` changed: expected %s, found %s"
                       % (op, sorted(others), sorted(rest)))
        return keep[0]

    params = spec["params"]
    env = {}
    if mode == "if":
        cond = node.cond
        if "select" in spec:
            cond = select(cond, spec["select"][0], spec["select"][1])
        else:
            c = cond
            while c.kind == "paren":
                c = c.e
            if c.kind == "bin" and c.op in ("&&", "||"):
                raise Fail("condition became a compound `%s` expression" % c.op)
        c, tc = tr.expr(cond, env, BOOL)
        if tc != BOOL:
            raise Fail("site condition is not bool")
        if node.then is None or node.els is None or node.els.kind != "block":
            raise Fail("site `if` has no parsable then/else blocks")
        a, ta = tr.e_block(node.then, env, BOOL)
        b, tb = tr.e_block(node.els, env, BOOL)
        if ta != BOOL or tb != BOOL:
            raise Fail("site branches do not map to booleans")
        term = ("if", c, a, b)
    elif mode == "call_arg":
        c, tc = tr.expr(node, env, BOOL)
        if tc != BOOL:
            raise Fail("site argument is not bool")
        callee = w.by_name.get(spec["callee_kernel"])
        if callee is None:
            raise Fail("callee kernel %s not emitted" % spec["callee_kernel"])
        term = app(callee.name, c)
    else:
        cond = select(node, spec["select"][0], spec["select"][1])
        term, tc = tr.expr(cond, env, BOOL)
        if tc != BOOL:
            raise Fail("site operand is not bool")
    if tr.pending:
        raise Fail("partial call in a site")
    fv = gir.free_vars(term) - set(p for p, _ in params)
    fv = set(v for v in fv if v not in w.by_name)
    if fv:
        raise Fail("site mentions unbound names %s" % sorted(fv))
    d = Def(spec["g"], params, BOOL, term, sources=sources)
    d.note = spec.get("note", "")
    w.add(d)


def do_alias(w, spec):
    target = w.by_name.get(spec["of"])
    if target is None:
        raise Fail("alias target %s not emitted" % spec["of"])
    d = Def(spec["g"], target.params, target.ret,
            app(target.name, *[var(p) for p, _ in target.params]), partial=target.partial,
            sources=target.sources)
    d.note = "alias of %s" % target.name
    w.add(d)


HANDLERS = {"enum": do_enum, "struct": do_struct, "const": do_const, "fn": do_fn,
            "site": do_site, "alias": do_alias}


# --------------------------------------------------------------------------- driver

def translate(repo, only=None):
    w = World(Sources(repo))
    w.typeonly = []
    groups = []
    for spec in MANIFEST:
        if only is not None and spec.get("group") not in only:
            continue
        label = spec.get("g") or ("%s %s" % (spec["k"], spec.get("name")))
        before = len(w.defs)
        try:
            HANDLERS[spec["k"]](w, spec)
        except Fail as e:
            raise KernelFail(label, str(e))
        except rf.ParseError as e:
            raise KernelFail(label, "parse error: %s" % e)
        for d in w.defs[before:]:
            d.group = spec.get("group", "")
    return w


def render(w):
    lines = ["From Coq Require Import NArith Bool. Open Scope N_scope.",
             "(* GENERATED by /verif/translator/rust2gallina.py from the Rust source of salsa.",
             "   Do not edit; regenerated on every run.  Definitions only, no proofs. *)", ""]
    need_prelude = any("k_nth" in d.text() or "k_len" in d.text() or "k_last" in d.text()
                       for d in w.defs)
    if need_prelude:
        lines.append(PRELUDE.rstrip())
        lines.append("")
    group = None
    for d in w.defs:
        if getattr(d, "group", "") != group:
            group = getattr(d, "group", "")
            lines.append("(* ---- %s ---- *)" % group)
        if d.note:
            lines.append("(* %s *)" % d.note)
        lines.append(d.text())
    lines.append("")
    return "\n".join(lines)


def digest(w, repo):
    ks = []
    for d in w.defs:
        text = d.text()
        entry = {
            "gallina_name": d.name,
            "group": getattr(d, "group", ""),
            "rust": [{"file": "src/" + s[0], "item": s[1], "sha256": s[2]} for s in d.sources],
            "gallina": text,
            "gallina_sha256": hashlib.sha256(text.encode()).hexdigest(),
        }
        if getattr(d, "value", None) is not None:
            entry["value"] = int(d.value)
        if d.kind == "def":
            entry["partial"] = bool(d.partial)
            entry["params"] = [p for p, _ in d.params]
        ks.append(entry)
    for d in w.typeonly:
        ks.append({"gallina_name": None, "note": d.note,
                   "rust": [{"file": "src/" + s[0], "item": s[1], "sha256": s[2]}
                            for s in d.sources]})
    return {"translator": "rust2gallina.py", "repo": repo, "kernels": ks}


def write_if_changed(path, content):
    try:
        with open(path, "r", encoding="utf-8") as fh:
            if fh.read() == content:
                return False
    except OSError:
        pass
    os.makedirs(os.path.dirname(os.path.abspath(path)), exist_ok=True)
    tmp = path + ".tmp.%d" % os.getpid()
    with open(tmp, "w", encoding="utf-8") as fh:
        fh.write(content)
    os.replace(tmp, path)
    return True


def main(argv=None):
    ap = argparse.ArgumentParser()
    ap.add_argument("--repo", required=True)
    ap.add_argument("--out", required=True)
    ap.add_argument("--digest", required=True)
    ap.add_argument("--quiet", action="store_true")
    args = ap.parse_args(argv)
    try:
        w = translate(args.repo)
        text = render(w)
        dg = json.dumps(digest(w, args.repo), indent=1, sort_keys=True) + "\n"
    except KernelFail as e:
        sys.stderr.write("TRANSLATION FAILURE: %s\n" % e)
        return 2
    except Exception as e:      # fail closed on anything unexpected
        sys.stderr.write("TRANSLATION FAILURE: kernel <internal>: %s: %s\n"
                         % (type(e).__name__, e))
        return 2
    c1 = write_if_changed(args.out, text)
    c2 = write_if_changed(args.digest, dg)
    if not args.quiet:
        print("rust2gallina: %d definitions; %s %s; %s %s"
              % (len(w.defs), args.out, "updated" if c1 else "unchanged",
                 args.digest, "updated" if c2 else "unchanged"))
    return 0


if __name__ == "__main__":
    sys.exit(main())

# r2g_core.py -- typed translation of the accepted Rust subset into gir terms.
# python3 stdlib only.  Anything not understood raises Fail (fail closed).

import os
import hashlib

import rustfront as rf
from rustfront import Node, node_text, toks_text
import gir
from gir import num, var, app


class Fail(Exception):
    pass


# --------------------------------------------------------------------------- types
#  ('int', 'u8'|'u16'|'u32'|'u64'|'usize')   ('nz', 'u32'|'usize')   ('bool',)
#  ('enum', Name)  ('newtype', Name, inner)  ('record', Name)  ('option', T)
#  ('tuple', [T..])  ('unit',)  ('atomic', T)  ('array', T, n)  ('list', T)
#  ('bytes', w)   -- result of to_le_bytes(), only indexable

WIDTH = {"u8": 8, "u16": 16, "u32": 32, "u64": 64, "usize": 64}

BOOL = ("bool",)
UNIT = ("unit",)


def tint(n):
    return ("int", n)


def under(ty):
    """strip newtype layers"""
    while ty[0] == "newtype":
        ty = ty[2]
    return ty


def is_int(ty):
    return under(ty)[0] == "int"


def width(ty):
    u = under(ty)
    if u[0] in ("int", "nz"):
        return WIDTH[u[1]]
    raise Fail("no machine width for type %r" % (ty,))


def gtype(ty):
    k = ty[0]
    if k in ("int", "nz", "enum"):
        return "N"
    if k == "bool":
        return "bool"
    if k == "newtype":
        return gtype(ty[2])
    if k == "record":
        return "k_" + ty[1]
    if k == "option":
        return "(option %s)" % gtype(ty[1])
    if k == "tuple":
        return "(%s)" % " * ".join(gtype(t) for t in ty[1])
    if k == "atomic":
        return gtype(ty[1])
    if k == "list":
        return "(list %s)" % gtype(ty[1])
    if k == "unit":
        return "unit"
    raise Fail("type %r has no Gallina counterpart" % (ty,))


def same_type(a, b):
    return under(a) == under(b) or a == b


# --------------------------------------------------------------------------- definitions

class Def:
    def __init__(self, name, params, ret, body, partial=False, sources=None, note=""):
        self.name = name          # Gallina name
        self.params = params      # [(gallina_name, ty)]
        self.ret = ret            # ty (already wrapped in option if partial)
        self.body = body          # gir term
        self.partial = partial
        self.sources = sources or []   # [(file, item path, sha256, text)]
        self.note = note
        self.kind = "def"
        self.state_out = None     # None | 'state' | 'pair'  (how mutable state is returned)
        self.state_param = None   # index of the state parameter, if any

    def text(self):
        ps = " ".join("(%s : %s)" % (gir.gname(n), gtype(t)) for n, t in self.params)
        head = "Definition %s%s : %s :=" % (self.name, (" " + ps) if ps else "", gtype(self.ret))
        return "%s\n  %s." % (head, gir.pp(self.body))


class RecordDef:
    def __init__(self, name, fields, sources):
        self.name = "k_" + name
        self.rust_name = name
        self.fields = fields      # [(fname, ty)]
        self.sources = sources
        self.kind = "record"
        self.note = ""

    def ctor(self):
        return "mk_" + self.name

    def proj(self, f):
        return "%s_%s" % (self.name, f)

    def text(self):
        fs = "; ".join("%s : %s" % (self.proj(f), gtype(t)) for f, t in self.fields)
        return "Record %s := %s { %s }." % (self.name, self.ctor(), fs)


# --------------------------------------------------------------------------- source access

VERIF_CFG = "#[cfg(salsa_rs_salsa_verif)]"


def strip_verif_cfg(src):
    """Remove every statement / item / match arm guarded by `#[cfg(salsa_rs_salsa_verif)]`:
    the verification hooks are compiled out of the crate under test, so the kernels are read
    as they exist with the guard off.  The guarded element ends at the first `;` or `,` at
    nesting depth 0, or at the `}` that closes the first block opened at depth 0 (plus a `;`
    directly following it)."""
    out = []
    i = 0
    n = len(src)
    while True:
        j = src.find(VERIF_CFG, i)
        if j < 0:
            out.append(src[i:])
            break
        out.append(src[i:j])
        k = j + len(VERIF_CFG)
        depth = 0
        opened_block = False
        head = src[k:k + 40].lstrip()
        is_item = head.split("(")[0].split()[0:1] and head.split("(")[0].split()[0] in (
            "impl", "fn", "pub", "mod", "struct", "enum", "use", "const", "static", "unsafe",
            "trait", "type", "impl<C>", "impl<C:")
        is_item = bool(is_item) or head.startswith("impl")
        while k < n:
            c = src[k]
            if c in "([{":
                if c == "{" and depth == 0:
                    opened_block = True
                depth += 1
            elif c in ")]}":
                if depth == 0:
                    break                      # end of the enclosing block: element had no terminator
                depth -= 1
                if depth == 0 and c == "}" and opened_block:
                    k += 1
                    m = k
                    while m < n and src[m] in " \t":
                        m += 1
                    if m < n and src[m] in ";,":
                        k = m + 1
                    break
            elif depth == 0 and (c == ";" or (c == "," and not is_item)):
                k += 1
                break
            elif c == '"':
                k += 1
                while k < n and src[k] != '"':
                    k += 2 if src[k] == "\\" else 1
            k += 1
        i = k
    return "".join(out)


class Sources:
    def __init__(self, repo):
        self.repo = repo
        self.cache = {}

    def load(self, rel):
        if rel not in self.cache:
            path = os.path.join(self.repo, "src", rel)
            try:
                with open(path, "r", encoding="utf-8") as fh:
                    src = strip_verif_cfg(fh.read())
            except OSError as e:
                raise Fail("cannot read %s: %s" % (path, e))
            try:
                toks = rf.lex(src)
                items = rf.scan_items(toks)
            except rf.ParseError as e:
                raise Fail("cannot scan %s: %s" % (rel, e))
            self.cache[rel] = (src, toks, items)
        return self.cache[rel]

    def find(self, rel, kind, name, container=None, trait=None, mod=None):
        src, toks, items = self.load(rel)
        hits = [it for it in items
                if it.kind == kind and it.name == name and it.container == container
                and (trait is None or it.trait == trait)
                and (mod is None or (mod in it.mods))]
        if trait is None:
            # an inherent item is wanted: drop trait impl items unless nothing else matches
            inh = [it for it in hits if it.trait is None]
            if inh:
                hits = inh
        if len(hits) != 1:
            raise Fail("expected exactly one %s %s%s in %s, found %d"
                       % (kind, (container + "::") if container else "", name, rel, len(hits)))
        it = hits[0]
        for a in it.attrs:
            if a.startswith("cfg") and "test" in a.split():
                raise Fail("%s %s in %s is test-only" % (kind, name, rel))
        return it

    def source_entry(self, rel, it):
        src = self.cache[rel][0]
        text = it.text(src)
        path = "%s%s%s" % (("::".join(it.mods) + "::") if it.mods else "",
                           (it.container + "::") if it.container else "", it.name)
        if it.trait:
            path = "<%s as %s>::%s" % (it.container, it.trait, it.name)
        return (rel, path, hashlib.sha256(text.encode()).hexdigest(), text)


# --------------------------------------------------------------------------- the translator

PRIM_INT = {"u8", "u16", "u32", "u64", "usize"}
TRACING_MACROS = {"trace", "debug", "info", "warn"}


class World:
    """Everything known so far: struct/enum tables, emitted definitions, lookup tables."""

    def __init__(self, sources):
        self.sources = sources
        self.structs = {}     # Name -> ('newtype', fieldname, ty) | ('record', RecordDef)
        self.enums = {}       # Name -> {variant: gallina const name}
        self.consts = {}      # (scope, NAME) -> Def      scope = container name or file
        self.methods = {}     # (Type or file, fn name) -> Def
        self.defs = []        # emission order (Def | RecordDef)
        self.by_name = {}
        self.derives = {}     # Name -> set of derived traits

    def add(self, d):
        if d.name in self.by_name:
            raise Fail("duplicate Gallina name %s" % d.name)
        self.by_name[d.name] = d
        self.defs.append(d)

    def eval_defs(self):
        out = {"__proj__": {}}
        for d in self.defs:
            if d.kind == "def":
                out[d.name] = ([gir.gname(p) for p, _ in d.params], d.body)
            else:
                for i, (f, _) in enumerate(d.fields):
                    out["__proj__"][d.proj(f)] = i
        return out

    def const_value(self, term):
        try:
            return gir.ev(term, {}, self.eval_defs())
        except gir.EvalError as e:
            raise Fail("cannot evaluate constant: %s" % e)


class Tr:
    """Translation of one kernel.  `spec` is the manifest entry (a dict)."""

    def __init__(self, world, spec, rel, toks, self_ty=None, container=None):
        self.w = world
        self.spec = spec
        self.rel = rel
        self.toks = toks
        self.self_ty = self_ty
        self.container = container
        self.partial = bool(spec.get("partial"))
        self.pre = []            # debug_assert conditions (gir bool terms)
        self.rejects = []        # separated assert conditions
        self.pending = []        # [(var, option-term)] partial calls awaiting a bind
        self.fresh = 0
        self.places = dict(spec.get("places", {}))   # place text -> (gallina var, ty)
        self.aliases = {}        # local name -> place text
        self.wrote = False
        self.atoms = spec.get("atoms", {})           # text -> (name or term, ty)
        self.call_map = spec.get("call_map", {})     # callee path text -> (term, ty)
        self.array = spec.get("array")               # dict or None
        self.extra_sources = []

    # ---- helpers
    def fail(self, msg, node=None):
        where = ""
        if node is not None:
            where = " at `%s`" % node_text(self.toks, node)[:120]
        raise Fail("%s%s" % (msg, where))

    def text(self, node):
        return node_text(self.toks, node)

    def closed(self, term):
        """no free variables other than already emitted constants"""
        for v in gir.free_vars(term):
            d = self.w.by_name.get(v)
            if d is None or d.kind != "def" or d.params:
                return False
        return True

    def newvar(self, base):
        self.fresh += 1
        return "%s_%d" % (base, self.fresh)

    # ---- types
    def resolve_type(self, t):
        k = t.kind
        if k in ("tref", "tptr"):
            return self.resolve_type(t.inner)
        if k == "ttuple":
            if not t.elems:
                return UNIT
            return ("tuple", [self.resolve_type(e) for e in t.elems])
        if k == "tarray":
            inner = self.resolve_type(t.inner)
            if t.length is None:
                self.fail("slice types are not supported", t)
            term, ty = self.expr(t.length, {}, tint("usize"))
            return ("array", inner, self.w.const_value(term))
        if k != "tpath":
            self.fail("unsupported type", t)
        name = t.segs[-1]
        if name in PRIM_INT:
            return tint(name)
        if name == "bool":
            return BOOL
        if name == "NonZeroU32":
            return ("nz", "u32")
        if name == "NonZeroUsize":
            return ("nz", "usize")
        if name == "Self":
            if self.self_ty is None:
                self.fail("Self outside an impl", t)
            return self.self_ty
        if name == "Option":
            return ("option", self.resolve_type(t.args[0]))
        if name == "Arc":
            return self.resolve_type(t.args[0])
        if name == "AtomicRevision":
            return ("atomic", self.named_type("Revision", t))
        if name in ("AtomicU8", "AtomicU16", "AtomicU32", "AtomicU64", "AtomicUsize"):
            return ("atomic", tint({"AtomicU8": "u8", "AtomicU16": "u16", "AtomicU32": "u32",
                                    "AtomicU64": "u64", "AtomicUsize": "usize"}[name]))
        if name == "SmallVec":
            a = t.args[0]
            if a.kind != "tarray":
                self.fail("unsupported SmallVec parameter", t)
            return ("list", self.resolve_type(a.inner))
        return self.named_type(name, t)

    def named_type(self, name, node=None):
        w = self.w
        if name in w.structs:
            s = w.structs[name]
            if s[0] == "newtype":
                return ("newtype", name, s[2])
            return ("record", name)
        if name in w.enums:
            return ("enum", name)
        self.fail("type %s is not in the manifest (or not yet emitted)" % name, node)

    # ---- arithmetic helpers
    def wrap(self, term, ty):
        return app("N.modulo", term, gir.pow2(width(ty)))

    def binop(self, op, a, b, ty, node):
        if op == "+":
            return self.wrap(app("N.add", a, b), ty)
        if op == "-":
            return self.wrap(app("N.sub", app("N.add", a, gir.pow2(width(ty))), b), ty)
        if op == "*":
            return self.wrap(app("N.mul", a, b), ty)
        if op == "/":
            return app("N.div", a, b)
        if op == "%":
            return app("N.modulo", a, b)
        if op == "&":
            return app("N.land", a, b)
        if op == "|":
            return app("N.lor", a, b)
        if op == "^":
            return app("N.lxor", a, b)
        self.fail("unsupported operator %s" % op, node)

    def compare(self, op, a, b):
        if op == "==":
            return app("N.eqb", a, b)
        if op == "!=":
            return app("negb", app("N.eqb", a, b))
        if op == "<":
            return app("N.ltb", a, b)
        if op == "<=":
            return app("N.leb", a, b)
        if op == ">":
            return app("N.ltb", b, a)
        if op == ">=":
            return app("N.leb", b, a)
        raise Fail("bad comparison %s" % op)

    @staticmethod
    def bare_literal(e):
        while e.kind == "paren":
            e = e.e
        return e.kind == "int" and e.suffix is None

    def check_ordered(self, ty, op, node):
        """`<`-style comparison on a user type needs derive(PartialOrd) semantics = integer order."""
        t = ty
        while t[0] == "newtype":
            if "PartialOrd" not in self.w.derives.get(t[1], set()):
                self.fail("ordering comparison on %s which does not derive PartialOrd" % t[1], node)
            t = t[2]
        if t[0] == "enum":
            if "PartialOrd" not in self.w.derives.get(t[1], set()):
                self.fail("ordering comparison on enum %s without derive(PartialOrd)" % t[1], node)
        elif t[0] not in ("int", "nz"):
            self.fail("ordering comparison on unsupported type", node)

    def check_eq(self, ty, node):
        t = ty
        while t[0] == "newtype":
            if "PartialEq" not in self.w.derives.get(t[1], set()):
                self.fail("== on %s which does not derive PartialEq" % t[1], node)
            t = t[2]
        if t[0] not in ("int", "nz", "enum", "bool"):
            self.fail("== on unsupported type", node)

    # ---- expressions
    def expr(self, e, env, want=None):
        """returns (term, type)"""
        txt = self.text(e)
        if txt in self.atoms:
            a, ty = self.atoms[txt]
            return (var(a) if isinstance(a, str) else a), ty
        k = e.kind
        m = getattr(self, "e_" + k, None)
        if m is None:
            self.fail("unsupported expression form '%s'" % k, e)
        return m(e, env, want)

    def e_paren(self, e, env, want):
        return self.expr(e.e, env, want)

    def e_unsafe(self, e, env, want):
        return self.e_block(e.block, env, want)

    def e_int(self, e, env, want):
        if e.suffix is not None:
            if e.suffix not in PRIM_INT:
                self.fail("unsupported literal suffix", e)
            ty = tint(e.suffix)
        elif want is not None and under(want)[0] == "int":
            ty = under(want)
        else:
            self.fail("cannot determine the type of integer literal", e)
        if e.value >= (1 << width(ty)):
            self.fail("literal out of range for %s" % ty[1], e)
        return num(e.value), ty

    def e_bool(self, e, env, want):
        return (("true",) if e.value else ("false",)), BOOL

    def e_path(self, e, env, want):
        segs = e.segs
        if len(segs) == 1:
            name = segs[0]
            if name in env:
                return env[name]
            if name in self.aliases:
                t, ty = self.read_place(self.aliases[name], e)
                return t, (ty[1] if ty[0] == "atomic" else ty)   # get_mut(): &mut inner
            if name == "None":
                if want is None or want[0] != "option":
                    self.fail("cannot type None", e)
                return ("none",), want
            d = self.w.consts.get((self.rel, name))
            if d is not None:
                return var(d.name), d.ret
            self.fail("unknown name %s" % name, e)
        if len(segs) == 2:
            scope, name = segs
            if scope == "Self":
                scope = self.container
            if scope in PRIM_INT and name == "MAX":
                return num((1 << WIDTH[scope]) - 1), tint(scope)
            if scope == "NonZeroUsize" and name == "MAX":
                return num((1 << 64) - 1), ("nz", "usize")
            if scope == "NonZeroU32" and name == "MAX":
                return num((1 << 32) - 1), ("nz", "u32")
            if scope in self.w.enums and name in self.w.enums[scope]:
                return var(self.w.enums[scope][name]), ("enum", scope)
            d = self.w.consts.get((scope, name))
            if d is not None:
                return var(d.name), d.ret
            generic = self.spec.get("generic_consts", {})
            if "%s::%s" % (segs[0], name) in generic:
                gname_, ty = generic["%s::%s" % (segs[0], name)]
                return var(gname_), ty
            self.fail("unknown constant %s::%s (not in the manifest)" % (scope, name), e)
        self.fail("unsupported path", e)

    def e_un(self, e, env, want):
        if e.op in ("&", "*"):
            return self.expr(e.e, env, want)
        if e.op == "!":
            t, ty = self.expr(e.e, env, want)
            if ty == BOOL:
                return app("negb", t), BOOL
            if under(ty)[0] == "int":
                return app("N.sub", num((1 << width(ty)) - 1), t), ty
            self.fail("! on unsupported type", e)
        self.fail("unsupported unary operator %s" % e.op, e)

    def e_bin(self, e, env, want):
        op = e.op
        if op in ("&&", "||"):
            a, ta = self.expr(e.l, env, BOOL)
            b, tb = self.expr(e.r, env, BOOL)
            if ta != BOOL or tb != BOOL:
                self.fail("boolean operator on non-bool", e)
            return app("andb" if op == "&&" else "orb", a, b), BOOL
        if op in ("<<", ">>"):
            a, ta = self.expr(e.l, env, want)
            b, tb = self.expr(e.r, env, tint("u32") if self.bare_literal(e.r) else None)
            if not is_int(ta) or not is_int(tb):
                self.fail("shift on non-integers", e)
            amount = None
            if self.closed(b):
                amount = self.w.const_value(b)
            if amount is None or amount >= width(ta):
                self.fail("shift amount must be a constant smaller than the width", e)
            if op == "<<":
                return self.wrap(app("N.shiftl", a, b), ta), under(ta)
            return app("N.shiftr", a, b), under(ta)
        if op in rf.COMPARISONS:
            if self.bare_literal(e.l) and not self.bare_literal(e.r):
                b, tb = self.expr(e.r, env, None)
                a, ta = self.expr(e.l, env, tb)
            else:
                a, ta = self.expr(e.l, env, None if not self.bare_literal(e.l) else want)
                b, tb = self.expr(e.r, env, ta)
            if not same_type(ta, tb):
                self.fail("comparison of different types %r / %r" % (ta, tb), e)
            if op in ("==", "!="):
                self.check_eq(ta, e)
                if under(ta) == BOOL:
                    self.fail("== on bool is not supported", e)
            else:
                self.check_ordered(ta, op, e)
            return self.compare(op, a, b), BOOL
        # arithmetic / bit operators
        if self.bare_literal(e.l) and not self.bare_literal(e.r):
            b, tb = self.expr(e.r, env, want)
            a, ta = self.expr(e.l, env, tb)
        else:
            a, ta = self.expr(e.l, env, want)
            b, tb = self.expr(e.r, env, ta)
        if not (is_int(ta) and is_int(tb)) or under(ta) != under(tb):
            self.fail("operator %s on types %r and %r" % (op, ta, tb), e)
        if ta[0] != "int" or tb[0] != "int":
            self.fail("arithmetic directly on a newtype", e)
        return self.binop(op, a, b, ta, e), ta

    def e_cast(self, e, env, want):
        to = self.resolve_type(e.ty)
        if under(to)[0] != "int" or to[0] != "int":
            self.fail("cast to non-integer type", e)
        t, ty = self.expr(e.e, env, to if self.bare_literal(e.e) else None)
        u = under(ty)
        if u == BOOL:
            return ("if", t, num(1), num(0)), to
        if u[0] == "enum":
            return t, to
        if u[0] == "int":
            if width(u) > width(to):
                return self.wrap(t, to), to
            return t, to
        self.fail("unsupported cast source type %r" % (ty,), e)

    def e_tuple(self, e, env, want):
        if not e.elems:
            return ("pair", []), UNIT
        parts = [self.expr(x, env, None) for x in e.elems]
        return ("pair", [p[0] for p in parts]), ("tuple", [p[1] for p in parts])

    def e_field(self, e, env, want):
        txt = self.text(e)
        if txt in self.places:
            return self.read_place(txt, e)
        t, ty = self.expr(e.e, env, None)
        return self.project(t, ty, e.name, e)

    def project(self, t, ty, fname, node):
        if ty[0] == "newtype":
            s = self.w.structs[ty[1]]
            if fname != s[1]:
                self.fail("no field %s on %s" % (fname, ty[1]), node)
            return t, s[2]
        if ty[0] == "record":
            rd = self.w.structs[ty[1]][1]
            for f, fty in rd.fields:
                if f == fname:
                    return ("proj", rd.proj(f), t), fty
            self.fail("no field %s on %s" % (fname, ty[1]), node)
        self.fail("field access on unsupported type %r" % (ty,), node)

    def e_struct(self, e, env, want):
        name = e.segs[-1]
        if name == "Self":
            name = self.container
        if len(e.segs) != 1 or name not in self.w.structs:
            self.fail("struct literal of a type outside the manifest", e)
        s = self.w.structs[name]
        given = dict(e.fields)
        if len(given) != len(e.fields):
            self.fail("duplicate field", e)
        if s[0] == "newtype":
            if list(given) != [s[1]]:
                self.fail("fields do not match struct %s" % name, e)
            t, ty = self.expr(given[s[1]], env, s[2])
            self.coerce_check(ty, s[2], e)
            return t, ("newtype", name, s[2])
        rd = s[1]
        if set(given) != set(f for f, _ in rd.fields):
            self.fail("fields do not match struct %s" % name, e)
        args = []
        for f, fty in rd.fields:
            t, ty = self.expr(given[f], env, fty)
            self.coerce_check(ty, fty, given[f])
            args.append(t)
        return ("mk", rd.ctor(), args), ("record", name)

    def coerce_check(self, got, wantty, node):
        if got == wantty:
            return
        # NonZero <-> its integer are distinct; everything must match exactly
        self.fail("type mismatch: got %r, expected %r" % (got, wantty), node)

    def e_if(self, e, env, want):
        c, tc = self.expr(e.cond, env, BOOL)
        if tc != BOOL:
            self.fail("if condition is not bool", e)
        if e.els is None:
            self.fail("if without else used as a value", e)
        a, ta = self.e_block(e.then, env, want)
        if e.els.kind == "block":
            b, tb = self.e_block(e.els, env, want or ta)
        else:
            b, tb = self.expr(e.els, env, want or ta)
        if ta != tb:
            if ta[0] == "option" and tb[0] == "option":
                pass
            else:
                self.fail("if branches have different types %r / %r" % (ta, tb), e)
        return ("if", c, a, b), ta

    def e_block(self, b, env, want):
        """a block in expression position: lets + tail, no control flow"""
        if b.kind != "block":
            return self.expr(b, env, want)
        env = dict(env)
        binds = []
        for s in b.stmts:
            if s.kind == "let" and s.els is None and s.pat.kind == "pbind" and s.init is not None:
                ty_want = self.resolve_type(s.ty) if s.ty is not None else None
                t, ty = self.expr(s.init, env, ty_want)
                binds.append((s.pat.name, t))
                env[s.pat.name] = (var(s.pat.name), ty)
            elif s.kind == "expr" and self.is_ignorable(s.e):
                continue
            else:
                self.fail("unsupported statement inside a value block", s)
        if b.tail is None:
            self.fail("value block without a tail expression", b)
        t, ty = self.expr(b.tail, env, want)
        for name, init in reversed(binds):
            t = ("let", name, init, t)
        return t, ty

    def is_ignorable(self, e):
        if e.kind == "macro":
            if e.segs[-1] in TRACING_MACROS and "tracing" in e.segs:
                return True
        return False

    def e_match(self, e, env, want):
        s, ts = self.expr(e.scrut, env, None)
        if ts[0] == "option":
            some_arm = none_arm = None
            for a in e.arms:
                if a.guard is not None or len(a.pats) != 1:
                    self.fail("unsupported match arm", a)
                p = a.pats[0]
                if p.kind == "pctor" and p.segs == ["Some"] and len(p.elems) == 1:
                    q = p.elems[0]
                    while q.kind == "pref":
                        q = q.inner
                    if q.kind != "pbind":
                        self.fail("unsupported pattern", a)
                    some_arm = (q.name, a.body)
                elif p.kind == "ppath" and p.segs == ["None"]:
                    none_arm = a.body
                else:
                    self.fail("unsupported option pattern", a)
            if some_arm is None or none_arm is None or len(e.arms) != 2:
                self.fail("option match must have exactly Some and None arms", e)
            env2 = dict(env)
            env2[some_arm[0]] = (var(some_arm[0]), ts[1])
            a, ta = self.expr(some_arm[1], env2, want)
            b, tb = self.expr(none_arm, env, want or ta)
            if ta != tb:
                self.fail("match arms have different types", e)
            return ("matchopt", s, some_arm[0], a, b), ta
        if is_int(ts):
            # integer literal arms + a final wildcard
            arms = []
            default = None
            for a in e.arms:
                if a.guard is not None or len(a.pats) != 1:
                    self.fail("unsupported match arm", a)
                p = a.pats[0]
                if p.kind == "plit":
                    if default is not None:
                        self.fail("arm after wildcard", a)
                    v, suf = p.value
                    if v >= (1 << width(ts)):
                        self.fail("pattern literal out of range", a)
                    arms.append((v, a.body))
                elif p.kind == "pwild":
                    default = a.body
                else:
                    self.fail("unsupported integer pattern", a)
            if default is None:
                self.fail("integer match without wildcard arm", e)
            if len(set(v for v, _ in arms)) != len(arms):
                self.fail("duplicate literal arms", e)
            scr = self.newvar("m")
            dt, dty = self.arm_value(default, env, want)
            out, oty = dt, dty
            tys = []
            for v, body in reversed(arms):
                bt, bty = self.arm_value(body, env, want)
                tys.append(bty)
                out = ("if", app("N.eqb", var(scr), num(v)), bt, out)
            rty = None
            for t in tys + [dty]:
                if t is not None:
                    if rty is not None and rty != t:
                        self.fail("match arms have different types", e)
                    rty = t
            if rty is None:
                self.fail("cannot type match", e)
            return ("let", scr, s, out), rty
        self.fail("match on unsupported scrutinee type %r" % (ts,), e)

    def arm_value(self, body, env, want):
        """value of a match arm; panic!/unreachable! yield the pending-panic marker"""
        if body.kind == "macro" and body.segs[-1] in ("panic", "unreachable"):
            if not self.partial:
                self.fail("panic in a kernel not declared partial", body)
            return ("var", "__PANIC__"), None
        return self.expr(body, env, want)

    def e_macro(self, e, env, want):
        self.fail("unsupported macro %s!" % "::".join(e.segs), e)

    def e_index(self, e, env, want):
        # bytes[i]
        if e.e.kind == "mcall" and e.e.name == "to_le_bytes" and not e.e.args:
            t, ty = self.expr(e.e.recv, env, None)
            if ty[0] != "int":
                self.fail("to_le_bytes on non-integer", e)
            if not self.bare_literal(e.idx):
                self.fail("byte index must be a literal", e)
            i = e.idx.value if e.idx.kind == "int" else None
            if i is None or i >= width(ty) // 8:
                self.fail("byte index out of range", e)
            x = t if i == 0 else app("N.div", t, num(256 ** i))
            return app("N.modulo", x, num(256)), tint("u8")
        if self.array is not None and self.text(e.e) == self.array["place"]:
            return self.array_read(e.idx, env, e)
        lst = self.spec.get("list")
        if lst is not None and self.text(e.e) == lst["place"]:
            i, ti = self.expr(e.idx, env, tint("usize"))
            if ti != tint("usize"):
                self.fail("list index must be usize", e)
            cur, lty = self.read_place(lst["place"], e)
            return app("k_nth", cur, i), lty[1]
        self.fail("unsupported indexing", e)

    # ---- arrays (Runtime::revisions)
    def array_len(self):
        d = self.w.by_name.get(self.array["len"])
        if d is None:
            self.fail("array length constant %s not emitted" % self.array["len"])
        return self.w.const_value(var(d.name))

    def array_select(self, idx_term):
        n = self.array_len()
        names = self.array["slots"](n)
        out = var(names[n - 1])
        for i in range(n - 2, -1, -1):
            out = ("if", app("N.eqb", idx_term, num(i)), var(names[i]), out)
        return out

    def array_read(self, idx, env, node):
        mode = self.array["mode"]
        i, ti = self.expr(idx, env, tint("usize"))
        if not is_int(ti):
            self.fail("array index is not an integer", node)
        ety = self.array["elem"]
        if mode == "read":
            if not self.closed(i):
                self.fail("non-constant direct array index (would need a bounds proof)", node)
            v = self.w.const_value(i)
            n = self.array_len()
            if v >= n:
                self.fail("constant array index out of bounds", node)
            return var(self.array["slots"](n)[v]), ety
        if mode == "slot":
            if not self.closed(i):
                self.fail("non-constant array index", node)
            v = self.w.const_value(i)
            known = self.array["known_slots"]
            if v not in known:
                self.fail("slot %d is not bound in the manifest" % v, node)
            return var(known[v]), ety
        self.fail("bad array mode", node)

    # ---- places (mutable cells)
    def read_place(self, place, node):
        if place not in self.places:
            self.fail("unknown place %s" % place, node)
        name, ty = self.places[place]
        return var(name), ty

    def place_of(self, e):
        """text of the place an lvalue expression denotes, or None"""
        while e.kind == "paren":
            e = e.e
        if e.kind == "un" and e.op == "*":
            inner = e.e
            if inner.kind == "path" and len(inner.segs) == 1 and inner.segs[0] in self.aliases:
                return self.aliases[inner.segs[0]]
            return self.place_of(inner)
        txt = self.text(e)
        if txt in self.places:
            return txt
        if e.kind == "path" and len(e.segs) == 1 and e.segs[0] in self.aliases:
            return self.aliases[e.segs[0]]
        if e.kind == "mcall" and e.name == "get_mut" and not e.args:
            return self.place_of(e.recv)
        return None

    # ---- calls
    def e_call(self, e, env, want):
        f = e.f
        if f.kind != "path":
            self.fail("call of a non-path", e)
        segs = f.segs
        ftxt = "::".join(segs)
        if ftxt in self.call_map:
            t, ty = self.call_map[ftxt]
            return t, ty
        args = e.args
        for a in args:
            if getattr(a, "arg_attrs", None):
                self.fail("attribute on call argument", e)
        if segs == ["Some"] and len(args) == 1:
            inner_want = want[1] if (want is not None and want[0] == "option") else None
            t, ty = self.expr(args[0], env, inner_want)
            return ("some", t), ("option", ty)
        if segs == ["Ok"] and len(args) == 1 and self.spec.get("ok_is_identity"):
            return self.expr(args[0], env, want)
        if len(segs) == 1 and segs[0] in self.w.structs and self.w.structs[segs[0]][0] == "newtype":
            return self.newtype_ctor(segs[0], args, env, e)
        if segs == ["Self"] and self.container in self.w.structs \
                and self.w.structs[self.container][0] == "newtype":
            return self.newtype_ctor(self.container, args, env, e)
        if len(segs) == 2:
            scope, name = segs
            if scope == "Self":
                scope = self.container
            if scope in ("u16", "u32", "u64", "usize") and name == "from" and len(args) == 1:
                t, ty = self.expr(args[0], env, None)
                to = tint(scope)
                if ty[0] != "int" or width(ty) > width(to):
                    self.fail("%s::from of a wider or non-integer type" % scope, e)
                return t, to
            if scope == "u16" and name == "from_le_bytes" and len(args) == 1 \
                    and args[0].kind == "array" and args[0].repeat is None \
                    and len(args[0].elems) == 2:
                lo_, tl = self.expr(args[0].elems[0], env, tint("u8"))
                hi_, th = self.expr(args[0].elems[1], env, tint("u8"))
                if tl != tint("u8") or th != tint("u8"):
                    self.fail("from_le_bytes elements must be u8", e)
                return app("N.add", lo_, app("N.mul", num(256), hi_)), tint("u16")
            if scope in ("NonZeroU32", "NonZeroUsize") and len(args) == 1:
                base = "u32" if scope == "NonZeroU32" else "usize"
                t, ty = self.expr(args[0], env, tint(base))
                if ty != tint(base):
                    self.fail("%s::%s of the wrong integer type" % (scope, name), e)
                if name == "new_unchecked":
                    return t, ("nz", base)
                if name == "new":
                    v = self.newvar("nz")
                    return (("let", v, t, ("if", app("N.eqb", var(v), num(0)), ("none",),
                                           ("some", var(v)))),
                            ("option", ("nz", base)))
                self.fail("unsupported %s::%s" % (scope, name), e)
            d = self.w.methods.get((scope, name))
            if d is not None:
                return self.call_def(d, None, args, env, e)
            self.fail("call of %s::%s which is not in the manifest" % (scope, name), e)
        if len(segs) == 1:
            d = self.w.methods.get((self.rel, segs[0]))
            if d is not None:
                return self.call_def(d, None, args, env, e)
        self.fail("unsupported call", e)

    def newtype_ctor(self, name, args, env, node):
        s = self.w.structs[name]
        if len(args) != 1:
            self.fail("newtype constructor arity", node)
        t, ty = self.expr(args[0], env, s[2])
        self.coerce_check(ty, s[2], node)
        return t, ("newtype", name, s[2])

    def call_def(self, d, recv, args, env, node):
        """call kernel d; recv is (term, ty) or None"""
        params = list(d.params)
        terms = []
        extra = self.spec.get("generic_consts", {})
        if getattr(d, "generic_params", None):
            for gp in d.generic_params:
                found = [v for v in extra.values() if v[0] == gp]
                if not found:
                    self.fail("callee %s needs generic constant %s" % (d.name, gp), node)
                terms.append(var(gp))
                params = params[1:]
        if recv is not None:
            if not params or not same_type(params[0][1], recv[1]):
                self.fail("receiver type mismatch calling %s" % d.name, node)
            terms.append(recv[0])
            params = params[1:]
        if len(params) != len(args):
            self.fail("arity mismatch calling %s" % d.name, node)
        for (pn, pty), a in zip(params, args):
            t, ty = self.expr(a, env, pty)
            if ty != pty:
                self.fail("argument type mismatch calling %s: got %r, expected %r"
                          % (d.name, ty, pty), a)
            terms.append(t)
        call = app(d.name, *terms) if terms else var(d.name)
        if d.state_out is not None:
            self.fail("call of a state-changing kernel %s in a value position" % d.name, node)
        if d.partial:
            if not self.partial:
                self.fail("call of partial kernel %s from a kernel not declared partial" % d.name,
                          node)
            v = self.newvar("r")
            self.pending.append((v, call))
            return var(v), d.ret[1]
        return call, d.ret

    def e_mcall(self, e, env, want):
        name = e.name
        args = e.args
        # inlined methods on self (array kernels)
        if e.recv.kind == "path" and e.recv.segs == ["self"] and \
                name in self.spec.get("inline_methods", {}):
            return self.inline_method(name, args, env, e)
        # place operations that only read
        ptxt = self.text(e.recv)
        if ptxt in self.places and name == "load":
            t, ty = self.read_place(ptxt, e)
            if ty[0] != "atomic":
                self.fail("load of a non-atomic place", e)
            return t, ty[1]
        if self.array is not None and ptxt == self.array["place"] and name == "get" \
                and len(args) == 1 and self.array["mode"] == "read":
            i, ti = self.expr(args[0], env, tint("usize"))
            if not is_int(ti):
                self.fail("array index is not an integer", e)
            n = self.array_len()
            iv = self.newvar("i")
            return (("let", iv, i,
                     ("if", app("N.ltb", var(iv), num(n)),
                      ("some", self.array_select(var(iv))), ("none",))),
                    ("option", self.array["elem"]))
        lst = self.spec.get("list")
        if lst is not None and ptxt == lst["place"]:
            cur, lty = self.read_place(ptxt, e)
            if name == "len" and not args:
                return app("k_len", cur), tint("usize")
            if name == "is_empty" and not args:
                return app("N.eqb", app("k_len", cur), num(0)), BOOL
            if name == "last" and not args:
                return app("k_last", cur), ("option", lty[1])
            self.fail("unsupported list method %s" % name, e)
        if name in ("fetch_or", "fetch_and", "store", "fill", "get_mut"):
            self.fail("state update in a value position", e)
        t, ty = self.expr(e.recv, env, None)
        u = ty
        if name == "load" and ty[0] == "atomic":
            return t, ty[1]
        if name == "load" and len(args) == 0 and self.spec.get("load_is_identity"):
            return t, ty
        if u[0] == "nz" and name == "get" and not args:
            return t, tint(u[1])
        if u[0] == "int" and name == "checked_add" and len(args) == 1:
            b, tb = self.expr(args[0], env, u)
            if tb != u:
                self.fail("checked_add argument type", e)
            s = self.newvar("s")
            return (("let", s, app("N.add", t, b),
                     ("if", app("N.ltb", var(s), gir.pow2(width(u))), ("some", var(s)), ("none",))),
                    ("option", u))
        if u[0] == "option":
            if name == "map" and len(args) == 1:
                x, body_t, body_ty = self.lambda1(args[0], u[1], env, e)
                return ("matchopt", t, x, ("some", body_t), ("none",)), ("option", body_ty)
            if name == "is_some_and" and len(args) == 1:
                x, body_t, body_ty = self.lambda1(args[0], u[1], env, e)
                if body_ty != BOOL:
                    self.fail("is_some_and closure must return bool", e)
                return ("matchopt", t, x, body_t, ("false",)), BOOL
            if name in ("expect", "unwrap"):
                if not self.partial:
                    self.fail(".%s() (a panic) in a kernel not declared partial" % name, e)
                if name == "expect" and not (len(args) == 1 and args[0].kind == "str"):
                    self.fail("expect needs a string literal", e)
                v = self.newvar("r")
                self.pending.append((v, t))
                return var(v), u[1]
            self.fail("unsupported Option method %s" % name, e)
        if u[0] in ("newtype", "record"):
            d = self.w.methods.get((u[1], name))
            if d is None:
                self.fail("method %s::%s is not in the manifest" % (u[1], name), e)
            return self.call_def(d, (t, ty), args, env, e)
        self.fail("unsupported method call .%s() on %r" % (name, ty), e)

    def lambda1(self, f, argty, env, node):
        """a one-argument closure or a path used as a function; returns (var, term, ty)"""
        if f.kind == "closure":
            if len(f.params) != 1 or f.params[0].kind != "pbind":
                self.fail("unsupported closure parameters", node)
            x = f.params[0].name
            env2 = dict(env)
            env2[x] = (var(x), argty)
            save = self.pending
            self.pending = []
            t, ty = self.expr(f.body, env2, None)
            if self.pending:
                self.fail("partial call inside a closure", node)
            self.pending = save
            return x, t, ty
        if f.kind == "path":
            x = self.newvar("x")
            env2 = dict(env)
            env2[x] = (var(x), argty)
            callnode = Node("call", f.lo, f.hi, f=f,
                            args=[Node("path", f.lo, f.lo, segs=[x])])
            # the synthetic argument has no text; translate by hand
            segs = f.segs
            scope = self.container if segs[0] == "Self" else segs[0]
            d = self.w.methods.get((scope, segs[-1])) if len(segs) == 2 else None
            if d is None:
                self.fail("function value %s is not in the manifest" % "::".join(segs), node)
            if len(d.params) != 1 or d.params[0][1] != argty:
                self.fail("function value %s has the wrong type" % d.name, node)
            if d.partial:
                return x, ("__partial__", app(d.name, var(x))), d.ret[1]
            return x, app(d.name, var(x)), d.ret
        self.fail("unsupported function argument", node)

    def inline_method(self, name, args, env, node):
        info = self.spec["inline_methods"][name]
        if args:
            self.fail("inlined method with arguments", node)
        it = self.w.sources.find(self.rel, "fn", name, container=self.container)
        self.extra_sources.append(self.w.sources.source_entry(self.rel, it))
        try:
            sig = rf.parse_fn(it)
            body = rf.parse_body(it, sig)
        except rf.ParseError as ex:
            self.fail("cannot parse inlined method %s: %s" % (name, ex), node)
        if sig.params or body.stmts or body.tail is None:
            self.fail("inlined method %s has an unexpected shape" % name, node)
        return self.expr(body.tail, {}, None)

# rustfront.py -- lexer, item scanner and Pratt expression parser for the tiny Rust
# subset accepted by rust2gallina.py.  python3 stdlib only.
#
# Everything here is syntactic.  Anything the parser does not know raises
# ParseError; the caller turns that into a translation failure (fail closed).

import re


class ParseError(Exception):
    pass


# --------------------------------------------------------------------------- lexer

class Tok:
    __slots__ = ("kind", "val", "start", "end", "joined")

    def __init__(self, kind, val, start, end, joined=False):
        self.kind = kind      # 'id' 'int' 'str' 'char' 'life' 'p' 'float'
        self.val = val
        self.start = start    # char offsets in the file
        self.end = end
        self.joined = joined  # True if the next token follows without whitespace

    def __repr__(self):
        return "%s:%r" % (self.kind, self.val)


# '>'-initial operators are never merged by the lexer (generics); the expression
# parser re-joins adjacent '>' '>' / '>' '='.
PUNCT = [
    "<<=", "..=", "...", "::", "->", "=>", "==", "!=", "<=", "&&", "||", "<<",
    "+=", "-=", "*=", "/=", "%=", "&=", "|=", "^=", "..",
]

_ident_re = re.compile(r"[A-Za-z_][A-Za-z0-9_]*")
_int_re = re.compile(
    r"(0x[0-9a-fA-F_]+|0b[01_]+|0o[0-7_]+|[0-9][0-9_]*)"
    r"(u8|u16|u32|u64|u128|usize|i8|i16|i32|i64|i128|isize)?")


def lex(src):
    toks = []
    i, n = 0, len(src)
    while i < n:
        c = src[i]
        if c in " \t\r\n":
            i += 1
            continue
        if src.startswith("//", i):
            j = src.find("\n", i)
            i = n if j < 0 else j
            continue
        if src.startswith("/*", i):
            depth, j = 1, i + 2
            while j < n and depth:
                if src.startswith("/*", j):
                    depth += 1
                    j += 2
                elif src.startswith("*/", j):
                    depth -= 1
                    j += 2
                else:
                    j += 1
            if depth:
                raise ParseError("unterminated block comment")
            i = j
            continue
        # raw strings / byte strings
        m = re.match(r"b?r(#*)\"", src[i:i + 40])
        if m:
            hashes = m.group(1)
            close = '"' + hashes
            j = src.find(close, i + len(m.group(0)))
            if j < 0:
                raise ParseError("unterminated raw string")
            toks.append(Tok("str", src[i:j + len(close)], i, j + len(close)))
            i = j + len(close)
            continue
        if c == '"' or (c == "b" and i + 1 < n and src[i + 1] == '"'):
            j = i + (2 if c == "b" else 1)
            while j < n and src[j] != '"':
                j += 2 if src[j] == "\\" else 1
            if j >= n:
                raise ParseError("unterminated string")
            toks.append(Tok("str", src[i:j + 1], i, j + 1))
            i = j + 1
            continue
        if c == "'":
            # char literal or lifetime
            m = re.match(r"'(\\.[^']*|[^\\'])'", src[i:i + 12])
            if m:
                toks.append(Tok("char", m.group(0), i, i + len(m.group(0))))
                i += len(m.group(0))
                continue
            m = _ident_re.match(src, i + 1)
            if m:
                toks.append(Tok("life", src[i:m.end()], i, m.end()))
                i = m.end()
                continue
            raise ParseError("stray quote at offset %d" % i)
        if c.isdigit():
            m = _int_re.match(src, i)
            j = m.end()
            prev_dot = bool(toks) and toks[-1].kind == "p" and toks[-1].val == "."
            # float literal: digits '.' digit   (never after a '.', so x.0.1 stays fields)
            if (not prev_dot and j + 1 < n and src[j] == "." and src[j + 1].isdigit()
                    and m.group(2) is None):
                m2 = re.match(r"[0-9_]+\.[0-9_]+([eE][+-]?[0-9]+)?(f32|f64)?", src[i:])
                toks.append(Tok("float", m2.group(0), i, i + len(m2.group(0))))
                i += len(m2.group(0))
                continue
            toks.append(Tok("int", (m.group(1), m.group(2)), i, j))
            i = j
            continue
        m = _ident_re.match(src, i)
        if m:
            toks.append(Tok("id", m.group(0), i, m.end()))
            i = m.end()
            continue
        for p in PUNCT:
            if src.startswith(p, i):
                toks.append(Tok("p", p, i, i + len(p)))
                i += len(p)
                break
        else:
            if c in "+-*/%^!&|=<>@.,;:#$?~()[]{}":
                toks.append(Tok("p", c, i, i + 1))
                i += 1
            else:
                raise ParseError("unexpected character %r at offset %d" % (c, i))
    for a, b in zip(toks, toks[1:]):
        a.joined = (a.end == b.start)
    return toks


def int_value(tok):
    text, suffix = tok.val
    t = text.replace("_", "")
    if t.startswith("0x"):
        v = int(t[2:], 16)
    elif t.startswith("0b"):
        v = int(t[2:], 2)
    elif t.startswith("0o"):
        v = int(t[2:], 8)
    else:
        v = int(t, 10)
    return v, suffix


# --------------------------------------------------------------------------- token helpers

OPEN = {"(": ")", "[": "]", "{": "}"}
CLOSE = {")", "]", "}"}


def match_close(toks, i):
    """toks[i] is an opening bracket; return index of the matching closer."""
    stack = []
    j = i
    while j < len(toks):
        t = toks[j]
        if t.kind == "p":
            if t.val in OPEN:
                stack.append(OPEN[t.val])
            elif t.val in CLOSE:
                if not stack or stack[-1] != t.val:
                    raise ParseError("unbalanced bracket near offset %d" % t.start)
                stack.pop()
                if not stack:
                    return j
        j += 1
    raise ParseError("unclosed bracket at offset %d" % toks[i].start)


def is_p(t, v):
    return t is not None and t.kind == "p" and t.val == v


def is_id(t, v=None):
    return t is not None and t.kind == "id" and (v is None or t.val == v)


def toks_text(toks):
    """Canonical text of a token slice (single spaces, literals verbatim)."""
    out = []
    for t in toks:
        if t.kind == "int":
            out.append(t.val[0] + (t.val[1] or ""))
        else:
            out.append(t.val)
    return " ".join(out)


# --------------------------------------------------------------------------- item scanner

class Item:
    """A located item: kind in {'fn','const','enum','struct'}."""

    def __init__(self, kind, name, container, trait, mods, toks, lo, hi, attrs):
        self.kind = kind
        self.name = name
        self.container = container   # impl self type name or None
        self.trait = trait           # trait name for `impl Trait for T` or None
        self.mods = mods             # tuple of enclosing mod names
        self.toks = toks
        self.lo = lo                 # first token of the item (after attributes)
        self.hi = hi                 # one past the last token
        self.attrs = attrs           # list of attribute texts

    def text(self, src):
        return src[self.toks[self.lo].start:self.toks[self.hi - 1].end]

    def __repr__(self):
        return "<%s %s::%s>" % (self.kind, self.container, self.name)


def _skip_generics(toks, i):
    """toks[i] is '<'; return index just past the matching '>' (angle depth only)."""
    depth = 0
    while i < len(toks):
        t = toks[i]
        if t.kind == "p":
            if t.val == "<":
                depth += 1
            elif t.val == "<<":
                depth += 2
            elif t.val == ">":
                depth -= 1
                if depth == 0:
                    return i + 1
            elif t.val in OPEN:
                i = match_close(toks, i)
            elif t.val in (";", "{"):
                break
        i += 1
    raise ParseError("unbalanced generics")


def _impl_header(toks, i, j):
    """tokens i..j (exclusive) after `impl`, before `{`. Returns (type_name, trait_name)."""
    if is_p(toks[i], "<"):
        i = _skip_generics(toks, i)
    # cut at `where`
    hdr = []
    depth = 0
    k = i
    for_at = None
    while k < j:
        t = toks[k]
        if t.kind == "p" and t.val == "<":
            depth += 1
        elif t.kind == "p" and t.val == ">":
            depth -= 1
        elif depth == 0 and is_id(t, "where"):
            break
        elif depth == 0 and is_id(t, "for"):
            for_at = len(hdr)
        hdr.append((t, depth))
        k += 1

    def last_path_ident(seq):
        name = None
        for t, d in seq:
            if d == 0 and t.kind == "id" and t.val not in ("unsafe", "const", "dyn"):
                name = t.val
            if d == 0 and t.kind == "p" and t.val not in ("::", "<", ">", "!", "&"):
                break
        return name

    if for_at is not None:
        return last_path_ident(hdr[for_at + 1:]), last_path_ident(hdr[:for_at])
    return last_path_ident(hdr), None


ITEM_QUALS = {"pub", "const", "unsafe", "async", "extern", "default"}


def scan_items(toks):
    """Return the list of Items found in a token stream (recursing into impl/mod/fn bodies)."""
    items = []

    def scan(lo, hi, container, trait, mods):
        i = lo
        attrs = []
        while i < hi:
            t = toks[i]
            if is_p(t, "#"):
                j = i + 1
                if is_p(toks[j], "!"):
                    j += 1
                if not is_p(toks[j], "["):
                    raise ParseError("bad attribute")
                k = match_close(toks, j)
                attrs.append(toks_text(toks[j + 1:k]))
                i = k + 1
                continue
            start = i
            # visibility / qualifiers
            j = i
            while j < hi and is_id(toks[j]) and toks[j].val in ITEM_QUALS:
                if toks[j].val == "pub" and is_p(toks[j + 1], "("):
                    j = match_close(toks, j + 1) + 1
                elif toks[j].val == "extern" and toks[j + 1].kind == "str":
                    j += 2
                elif toks[j].val == "const" and not is_id(toks[j + 1], "fn") \
                        and not is_id(toks[j + 1], "unsafe"):
                    break
                else:
                    j += 1
            t = toks[j] if j < hi else None
            if is_id(t, "fn"):
                name = toks[j + 1].val
                k = j + 2
                # find body '{' or ';' at bracket depth 0 (generics may contain braces? no)
                while not (is_p(toks[k], "{") or is_p(toks[k], ";")):
                    if toks[k].kind == "p" and toks[k].val in ("(", "["):
                        k = match_close(toks, k)
                    k += 1
                if is_p(toks[k], ";"):
                    end = k + 1
                else:
                    end = match_close(toks, k) + 1
                    scan_fn_body(k + 1, end - 1, container, trait, mods)
                items.append(Item("fn", name, container, trait, mods, toks, start, end, attrs))
                attrs = []
                i = end
                continue
            if is_id(t, "const") or is_id(t, "static"):
                name = toks[j + 1].val
                k = j + 2
                while not is_p(toks[k], ";"):
                    if toks[k].kind == "p" and toks[k].val in OPEN:
                        k = match_close(toks, k)
                    k += 1
                items.append(Item("const", name, container, trait, mods, toks, start, k + 1, attrs))
                attrs = []
                i = k + 1
                continue
            if is_id(t, "impl"):
                k = j + 1
                while not is_p(toks[k], "{"):
                    if toks[k].kind == "p" and toks[k].val in ("(", "["):
                        k = match_close(toks, k)
                    k += 1
                tname, trname = _impl_header(toks, j + 1, k)
                end = match_close(toks, k)
                scan(k + 1, end, tname, trname, mods)
                attrs = []
                i = end + 1
                continue
            if is_id(t, "mod"):
                name = toks[j + 1].val
                if is_p(toks[j + 2], ";"):
                    i = j + 3
                    attrs = []
                    continue
                end = match_close(toks, j + 2)
                scan(j + 3, end, None, None, mods + (name,))
                attrs = []
                i = end + 1
                continue
            if is_id(t, "enum") or is_id(t, "struct") or is_id(t, "union") or is_id(t, "trait"):
                kind = t.val
                name = toks[j + 1].val
                k = j + 2
                while not (is_p(toks[k], "{") or is_p(toks[k], ";") or is_p(toks[k], "(")):
                    if is_p(toks[k], "<"):
                        k = _skip_generics(toks, k)
                        continue
                    k += 1
                if is_p(toks[k], ";"):
                    end = k + 1
                elif is_p(toks[k], "("):
                    k2 = match_close(toks, k)
                    while not is_p(toks[k2], ";"):
                        k2 += 1
                    end = k2 + 1
                else:
                    end = match_close(toks, k) + 1
                if kind in ("enum", "struct"):
                    items.append(Item(kind, name, container, trait, mods, toks, start, end, attrs))
                attrs = []
                i = end
                continue
            if is_id(t, "use") or is_id(t, "type") or is_id(t, "extern"):
                k = j
                while not is_p(toks[k], ";"):
                    if toks[k].kind == "p" and toks[k].val in OPEN:
                        k = match_close(toks, k)
                    k += 1
                attrs = []
                i = k + 1
                continue
            if t is not None and t.kind == "id":
                # item macro: path::name! { ... } / name!( ... ); / macro_rules! n { }
                while is_p(toks[j + 1], "::") and is_id(toks[j + 2]):
                    j += 2
            if t is not None and t.kind == "id" and is_p(toks[j + 1], "!"):
                k = j + 2
                if toks[k].kind == "id":
                    k += 1
                end = match_close(toks, k) + 1
                if end < hi and is_p(toks[end], ";"):
                    end += 1
                attrs = []
                i = end
                continue
            raise ParseError("item scanner: unexpected token %r at offset %d"
                             % (toks[i].val, toks[i].start))

    def scan_fn_body(lo, hi, container, trait, mods):
        # only look for nested `fn` items (e.g. `fn inner`) -- they are part of the
        # enclosing function's text, so nothing is recorded; nothing to do.
        return

    scan(0, len(toks), None, None, ())
    return items


# --------------------------------------------------------------------------- AST

class Node:
    def __init__(self, kind, lo, hi, **kw):
        self.kind = kind
        self.lo = lo
        self.hi = hi
        self.__dict__.update(kw)

    def __repr__(self):
        d = {k: v for k, v in self.__dict__.items() if k not in ("kind", "lo", "hi")}
        return "%s%r" % (self.kind, d)


# binding powers (left, right); higher binds tighter.  Rust reference order.
BINOPS = {
    "*": (20, 21), "/": (20, 21), "%": (20, 21),
    "+": (18, 19), "-": (18, 19),
    "<<": (16, 17), ">>": (16, 17),
    "&": (14, 15),
    "^": (12, 13),
    "|": (10, 11),
    "==": (8, 9), "!=": (8, 9), "<": (8, 9), ">": (8, 9), "<=": (8, 9), ">=": (8, 9),
    "&&": (6, 7),
    "||": (4, 5),
}
COMPARISONS = {"==", "!=", "<", ">", "<=", ">="}
ASSIGN_OPS = {"=", "+=", "-=", "*=", "/=", "%=", "&=", "|=", "^=", "<<=", ">>="}
BP_AS = 22
BP_UNARY = 24
BP_RANGE = 3
BP_ASSIGN = 1


class Parser:
    def __init__(self, toks, lo, hi):
        self.t = toks
        self.i = lo
        self.hi = hi

    # -- primitives
    def peek(self, k=0):
        j = self.i + k
        return self.t[j] if j < self.hi else None

    def at_end(self):
        return self.i >= self.hi

    def err(self, msg):
        t = self.peek()
        where = ("offset %d near %r" % (t.start, t.val)) if t else "end of input"
        raise ParseError("%s (%s)" % (msg, where))

    def eat_p(self, v):
        if is_p(self.peek(), v):
            self.i += 1
            return True
        return False

    def expect_p(self, v):
        if not self.eat_p(v):
            self.err("expected %r" % v)

    def eat_id(self, v):
        if is_id(self.peek(), v):
            self.i += 1
            return True
        return False

    def expect_ident(self):
        t = self.peek()
        if t is None or t.kind != "id":
            self.err("expected identifier")
        self.i += 1
        return t.val

    # -- operators: re-join '>' '>' and '>' '='
    def peek_op(self):
        """Return (op_text, ntokens) for an infix/assignment operator at the cursor, or None."""
        t = self.peek()
        if t is None or t.kind != "p":
            if is_id(t, "as"):
                return ("as", 1)
            return None
        v = t.val
        if v == ">":
            t1 = self.peek(1)
            if t.joined and is_p(t1, ">"):
                t2 = self.peek(2)
                if t1.joined and is_p(t2, "="):
                    return (">>=", 3)
                return (">>", 2)
            if t.joined and is_p(t1, "="):
                return (">=", 2)
            if t.joined and is_p(t1, "=="):
                self.err("unsupported operator sequence")
            return (">", 1)
        if v in BINOPS or v in ASSIGN_OPS or v in ("..", "..=", "?"):
            return (v, 1)
        return None

    # -- types
    def parse_type(self):
        lo = self.i
        t = self.peek()
        if is_p(t, "&"):
            self.i += 1
            if self.peek() is not None and self.peek().kind == "life":
                self.i += 1
            self.eat_id("mut")
            inner = self.parse_type()
            return Node("tref", lo, self.i, inner=inner)
        if is_p(t, "&&"):
            self.err("unsupported type")
        if is_p(t, "*"):
            self.i += 1
            if not (self.eat_id("const") or self.eat_id("mut")):
                self.err("bad raw pointer type")
            inner = self.parse_type()
            return Node("tptr", lo, self.i, inner=inner)
        if is_p(t, "("):
            self.i += 1
            elems = []
            while not self.eat_p(")"):
                elems.append(self.parse_type())
                if not self.eat_p(","):
                    self.expect_p(")")
                    break
            if len(elems) == 1:
                return elems[0]
            return Node("ttuple", lo, self.i, elems=elems)
        if is_p(t, "["):
            self.i += 1
            inner = self.parse_type()
            length = None
            if self.eat_p(";"):
                length = self.parse_expr(0)
            self.expect_p("]")
            return Node("tarray", lo, self.i, inner=inner, length=length)
        if is_id(t, "impl") or is_id(t, "dyn") or is_id(t, "fn"):
            self.err("unsupported type form")
        if is_p(t, "<"):
            self.err("qualified path types are not supported")
        if t is None or t.kind != "id":
            self.err("expected a type")
        segs = []
        args = []
        while True:
            segs.append(self.expect_ident())
            if is_p(self.peek(), "<"):
                self.i += 1
                args = []
                while True:
                    if is_p(self.peek(), ">"):
                        self.i += 1
                        break
                    if self.peek() is not None and self.peek().kind == "life":
                        self.i += 1
                        args.append(Node("tlife", self.i - 1, self.i))
                    else:
                        args.append(self.parse_type())
                    if not self.eat_p(","):
                        self.expect_p(">")
                        break
            if is_p(self.peek(), "::") and is_id(self.peek(1)):
                self.i += 1
                continue
            break
        return Node("tpath", lo, self.i, segs=segs, args=args)

    # -- patterns (tiny)
    def parse_pattern(self):
        lo = self.i
        t = self.peek()
        if is_p(t, "&"):
            self.i += 1
            self.eat_id("mut")
            inner = self.parse_pattern()
            return Node("pref", lo, self.i, inner=inner)
        if is_p(t, "("):
            self.i += 1
            elems = []
            while not self.eat_p(")"):
                elems.append(self.parse_pattern())
                if not self.eat_p(","):
                    self.expect_p(")")
                    break
            return Node("ptuple", lo, self.i, elems=elems)
        if t is not None and t.kind == "int":
            self.i += 1
            return Node("plit", lo, self.i, value=int_value(t))
        if is_id(t, "_"):
            self.i += 1
            return Node("pwild", lo, self.i)
        if is_id(t, "mut") or is_id(t, "ref"):
            self.i += 1
            name = self.expect_ident()
            return Node("pbind", lo, self.i, name=name, mut=True)
        if t is not None and t.kind == "id":
            segs = [self.expect_ident()]
            while is_p(self.peek(), "::"):
                self.i += 1
                segs.append(self.expect_ident())
            if is_p(self.peek(), "("):
                self.i += 1
                elems = []
                while not self.eat_p(")"):
                    elems.append(self.parse_pattern())
                    if not self.eat_p(","):
                        self.expect_p(")")
                        break
                return Node("pctor", lo, self.i, segs=segs, elems=elems)
            if is_p(self.peek(), "{"):
                self.err("struct patterns are not supported")
            if len(segs) == 1 and (segs[0][0].islower() or segs[0][0] == "_"):
                return Node("pbind", lo, self.i, name=segs[0], mut=False)
            return Node("ppath", lo, self.i, segs=segs)
        self.err("unsupported pattern")

    # -- blocks and statements
    def parse_block(self):
        """cursor at '{' ; returns Node('block', stmts, tail)."""
        lo = self.i
        self.expect_p("{")
        close = match_close(self.t, lo)
        sub = Parser(self.t, self.i, close)
        stmts, tail = sub.parse_stmts()
        self.i = close + 1
        return Node("block", lo, self.i, stmts=stmts, tail=tail)

    def parse_stmts(self):
        stmts = []
        tail = None
        while not self.at_end():
            lo = self.i
            # attributes on statements
            attrs = []
            while is_p(self.peek(), "#"):
                j = self.i + 1
                k = match_close(self.t, j)
                attrs.append(toks_text(self.t[j + 1:k]))
                self.i = k + 1
            if self.eat_p(";"):
                continue
            if is_id(self.peek(), "let"):
                self.i += 1
                pat = self.parse_pattern()
                ty = None
                if self.eat_p(":"):
                    ty = self.parse_type()
                init = None
                els = None
                if self.eat_p("="):
                    init = self.parse_expr(0)
                    if self.eat_id("else"):
                        els = self.parse_block()
                self.expect_p(";")
                stmts.append(Node("let", lo, self.i, pat=pat, ty=ty, init=init, els=els, attrs=attrs))
                continue
            if is_id(self.peek(), "fn") or is_id(self.peek(), "enum") or is_id(self.peek(), "struct") \
                    or is_id(self.peek(), "impl") or is_id(self.peek(), "use") \
                    or is_id(self.peek(), "const") and not is_p(self.peek(1), "{"):
                self.err("nested items are not supported")
            e = self.parse_expr(0)
            if self.eat_p(";"):
                stmts.append(Node("expr", lo, self.i, e=e, attrs=attrs))
            elif self.at_end():
                if attrs:
                    self.err("attribute on tail expression")
                tail = e
            elif e.kind in ("if", "match", "block", "unsafe", "for", "while", "loop"):
                stmts.append(Node("expr", lo, self.i, e=e, attrs=attrs))
            else:
                self.err("expected ';'")
        return stmts, tail

    # -- expressions
    def parse_expr(self, min_bp, no_struct=False):
        lo = self.i
        left = self.parse_prefix(no_struct)
        while True:
            # postfix
            t = self.peek()
            if is_p(t, "."):
                t1 = self.peek(1)
                if t1 is not None and t1.kind == "int":
                    self.i += 2
                    v, suf = int_value(t1)
                    if suf is not None:
                        self.err("bad tuple index")
                    left = Node("field", lo, self.i, e=left, name=str(v))
                    continue
                if t1 is not None and t1.kind == "id":
                    self.i += 2
                    name = t1.val
                    turbofish = None
                    if is_p(self.peek(), "::") and is_p(self.peek(1), "<"):
                        self.i += 1
                        j = _skip_generics(self.t, self.i)
                        turbofish = toks_text(self.t[self.i:j])
                        self.i = j
                    if is_p(self.peek(), "("):
                        args = self.parse_args()
                        left = Node("mcall", lo, self.i, recv=left, name=name, args=args,
                                    turbofish=turbofish)
                    else:
                        if turbofish:
                            self.err("turbofish on a field")
                        left = Node("field", lo, self.i, e=left, name=name)
                    continue
                self.err("unsupported token after '.'")
            if is_p(t, "("):
                args = self.parse_args()
                left = Node("call", lo, self.i, f=left, args=args)
                continue
            if is_p(t, "["):
                self.i += 1
                idx = self.parse_expr(0)
                self.expect_p("]")
                left = Node("index", lo, self.i, e=left, idx=idx)
                continue
            if is_p(t, "?"):
                self.i += 1
                left = Node("try", lo, self.i, e=left)
                continue
            op = self.peek_op()
            if op is None:
                break
            op, ntok = op
            if op == "as":
                if BP_AS < min_bp:
                    break
                self.i += ntok
                ty = self.parse_type()
                left = Node("cast", lo, self.i, e=left, ty=ty)
                continue
            if op in BINOPS:
                lbp, rbp = BINOPS[op]
                if lbp < min_bp:
                    break
                if op in COMPARISONS and left.kind == "bin" and left.op in COMPARISONS \
                        and not left.paren:
                    self.err("chained comparison")
                self.i += ntok
                right = self.parse_expr(rbp, no_struct)
                left = Node("bin", lo, self.i, op=op, l=left, r=right, paren=False)
                continue
            if op in ("..", "..="):
                if BP_RANGE < min_bp:
                    break
                self.i += ntok
                hi_e = None
                t2 = self.peek()
                if t2 is not None and not (t2.kind == "p" and t2.val in (")", "]", "}", ",", ";")) \
                        and not (no_struct and is_p(t2, "{")):
                    hi_e = self.parse_expr(BP_RANGE + 1, no_struct)
                left = Node("range", lo, self.i, lo_e=left, hi_e=hi_e, inclusive=(op == "..="))
                continue
            if op in ASSIGN_OPS:
                if BP_ASSIGN < min_bp:
                    break
                self.i += ntok
                right = self.parse_expr(BP_ASSIGN, no_struct)
                left = Node("assign", lo, self.i, op=op, l=left, r=right)
                continue
            break
        return left

    def parse_args(self):
        self.expect_p("(")
        args = []
        while not self.eat_p(")"):
            # attributes on arguments (#[cfg(...)] arg)
            attrs = []
            while is_p(self.peek(), "#"):
                j = self.i + 1
                k = match_close(self.t, j)
                attrs.append(toks_text(self.t[j + 1:k]))
                self.i = k + 1
            e = self.parse_expr(0)
            e.arg_attrs = attrs
            args.append(e)
            if not self.eat_p(","):
                self.expect_p(")")
                break
        return args

    def parse_prefix(self, no_struct):
        lo = self.i
        t = self.peek()
        if t is None:
            self.err("expected expression")
        if t.kind == "int":
            self.i += 1
            v, suf = int_value(t)
            return Node("int", lo, self.i, value=v, suffix=suf)
        if t.kind == "str":
            self.i += 1
            return Node("str", lo, self.i, text=t.val)
        if t.kind in ("char", "float", "life"):
            self.err("unsupported literal")
        if t.kind == "p":
            v = t.val
            if v in ("-", "!", "*"):
                self.i += 1
                e = self.parse_expr(BP_UNARY, no_struct)
                return Node("un", lo, self.i, op=v, e=e)
            if v == "&":
                self.i += 1
                self.eat_id("mut")
                e = self.parse_expr(BP_UNARY, no_struct)
                return Node("un", lo, self.i, op="&", e=e)
            if v == "(":
                self.i += 1
                if self.eat_p(")"):
                    return Node("tuple", lo, self.i, elems=[])
                first = self.parse_expr(0)
                if self.eat_p(")"):
                    if first.kind == "bin":
                        first.paren = True
                    return Node("paren", lo, self.i, e=first)
                elems = [first]
                while self.eat_p(","):
                    if is_p(self.peek(), ")"):
                        break
                    elems.append(self.parse_expr(0))
                self.expect_p(")")
                return Node("tuple", lo, self.i, elems=elems)
            if v == "[":
                self.i += 1
                elems = []
                if self.eat_p("]"):
                    return Node("array", lo, self.i, elems=[], repeat=None)
                first = self.parse_expr(0)
                if self.eat_p(";"):
                    n = self.parse_expr(0)
                    self.expect_p("]")
                    return Node("array", lo, self.i, elems=[first], repeat=n)
                elems = [first]
                while self.eat_p(","):
                    if is_p(self.peek(), "]"):
                        break
                    elems.append(self.parse_expr(0))
                self.expect_p("]")
                return Node("array", lo, self.i, elems=elems, repeat=None)
            if v == "{":
                return self.parse_block()
            if v == "|" or v == "||":
                self.i += 1
                params = []
                if v == "|":
                    while not self.eat_p("|"):
                        params.append(self.parse_pattern())
                        if self.eat_p(":"):
                            self.parse_type()
                        if not self.eat_p(","):
                            self.expect_p("|")
                            break
                body = self.parse_expr(0)
                return Node("closure", lo, self.i, params=params, body=body)
            if v == "<":
                self.err("qualified paths are not supported")
            self.err("unexpected token in expression")
        # identifiers / keywords
        v = t.val
        if v in ("true", "false"):
            self.i += 1
            return Node("bool", lo, self.i, value=(v == "true"))
        if v == "if":
            self.i += 1
            if is_id(self.peek(), "let"):
                self.i += 1
                pat = self.parse_pattern()
                self.expect_p("=")
                scrut = self.parse_expr(0, no_struct=True)
                then = self.parse_block()
                els = None
                if self.eat_id("else"):
                    els = self.parse_block() if is_p(self.peek(), "{") else self.parse_expr(0)
                return Node("iflet", lo, self.i, pat=pat, scrut=scrut, then=then, els=els)
            cond = self.parse_expr(0, no_struct=True)
            then = self.parse_block()
            els = None
            if self.eat_id("else"):
                if is_id(self.peek(), "if"):
                    els = self.parse_prefix(False)
                else:
                    els = self.parse_block()
            return Node("if", lo, self.i, cond=cond, then=then, els=els)
        if v == "match":
            self.i += 1
            scrut = self.parse_expr(0, no_struct=True)
            self.expect_p("{")
            arms = []
            while not self.eat_p("}"):
                alo = self.i
                while is_p(self.peek(), "#"):
                    self.err("attributes on match arms are not supported")
                self.eat_p("|")
                pats = [self.parse_pattern()]
                while self.eat_p("|"):
                    pats.append(self.parse_pattern())
                guard = None
                if self.eat_id("if"):
                    guard = self.parse_expr(0)
                self.expect_p("=>")
                body = self.parse_expr(0)
                arms.append(Node("arm", alo, self.i, pats=pats, guard=guard, body=body))
                if not self.eat_p(","):
                    if body.kind not in ("block", "if", "match", "unsafe") \
                            and not is_p(self.peek(), "}"):
                        self.err("expected ',' after match arm")
            return Node("match", lo, self.i, scrut=scrut, arms=arms)
        if v == "unsafe":
            self.i += 1
            b = self.parse_block()
            return Node("unsafe", lo, self.i, block=b)
        if v == "return":
            self.i += 1
            e = None
            t2 = self.peek()
            if t2 is not None and not (t2.kind == "p" and t2.val in (";", "}", ",", ")")):
                e = self.parse_expr(0)
            return Node("return", lo, self.i, e=e)
        if v == "for":
            self.i += 1
            pat = self.parse_pattern()
            if not self.eat_id("in"):
                self.err("expected 'in'")
            it = self.parse_expr(0, no_struct=True)
            body = self.parse_block()
            return Node("for", lo, self.i, pat=pat, iter=it, body=body)
        if v in ("while", "loop", "break", "continue", "async", "await", "yield", "move",
                 "let", "const", "static", "dyn", "impl", "fn"):
            self.err("unsupported construct %r" % v)
        # path
        segs = [self.expect_ident()]
        while is_p(self.peek(), "::"):
            if is_p(self.peek(1), "<"):
                self.i += 1
                j = _skip_generics(self.t, self.i)
                segs.append("<" + toks_text(self.t[self.i + 1:j - 1]) + ">")
                self.i = j
                continue
            if is_id(self.peek(1)):
                self.i += 1
                segs.append(self.expect_ident())
                continue
            self.err("bad path")
        if is_p(self.peek(), "!") and not is_p(self.peek(1), "="):
            # macro invocation
            self.i += 1
            if not (self.peek() is not None and self.peek().kind == "p" and self.peek().val in OPEN):
                self.err("bad macro invocation")
            k = match_close(self.t, self.i)
            inner = (self.i + 1, k)
            self.i = k + 1
            return Node("macro", lo, self.i, segs=segs, inner=inner)
        if is_p(self.peek(), "{") and not no_struct and \
                (segs[-1][0].isupper() or segs[-1] == "Self"):
            self.i += 1
            fields = []
            while not self.eat_p("}"):
                if is_p(self.peek(), "#") or is_p(self.peek(), ".."):
                    self.err("unsupported struct literal form")
                flo = self.i
                fname = self.expect_ident()
                if self.eat_p(":"):
                    fe = self.parse_expr(0)
                else:
                    fe = Node("path", flo, self.i, segs=[fname])
                fields.append((fname, fe))
                if not self.eat_p(","):
                    self.expect_p("}")
                    break
            return Node("struct", lo, self.i, segs=segs, fields=fields)
        return Node("path", lo, self.i, segs=segs)


def node_text(toks, n):
    return toks_text(toks[n.lo:n.hi])


# --------------------------------------------------------------------------- signatures

class FnSig:
    def __init__(self):
        self.name = None
        self.generics = None
        self.self_kind = None     # None | 'self' | 'mut self' | '&self' | '&mut self'
        self.params = []          # [(name, type Node)]
        self.ret = None           # type Node or None
        self.body = None          # (lo, hi) token range inside the braces
        self.quals = []


def parse_fn(item):
    toks = item.toks
    p = Parser(toks, item.lo, item.hi)
    sig = FnSig()
    while is_id(p.peek()) and p.peek().val in ITEM_QUALS:
        q = p.expect_ident()
        sig.quals.append(q)
        if q == "pub" and is_p(p.peek(), "("):
            p.i = match_close(toks, p.i) + 1
    if not p.eat_id("fn"):
        p.err("expected fn")
    sig.name = p.expect_ident()
    if is_p(p.peek(), "<"):
        j = _skip_generics(toks, p.i)
        sig.generics = toks_text(toks[p.i + 1:j - 1])
        p.i = j
    p.expect_p("(")
    while not p.eat_p(")"):
        while is_p(p.peek(), "#"):
            k = match_close(toks, p.i + 1)
            p.i = k + 1
        if is_p(p.peek(), "&") and (is_id(p.peek(1), "self") or
                                    (is_id(p.peek(1), "mut") and is_id(p.peek(2), "self")) or
                                    (p.peek(1).kind == "life")):
            p.i += 1
            if p.peek().kind == "life":
                p.i += 1
            if p.eat_id("mut"):
                sig.self_kind = "&mut self"
            else:
                sig.self_kind = "&self"
            if not p.eat_id("self"):
                p.err("expected self")
        elif is_id(p.peek(), "self"):
            p.i += 1
            sig.self_kind = "self"
        elif is_id(p.peek(), "mut") and is_id(p.peek(1), "self"):
            p.i += 2
            sig.self_kind = "mut self"
        else:
            p.eat_id("mut")
            name = p.expect_ident()
            p.expect_p(":")
            ty = p.parse_type()
            sig.params.append((name, ty))
        if not p.eat_p(","):
            p.expect_p(")")
            break
    if p.eat_p("->"):
        sig.ret = p.parse_type()
    # where clause: skip to '{'
    while not is_p(p.peek(), "{"):
        if p.peek() is None:
            p.err("function without body")
        p.i += 1
    close = match_close(toks, p.i)
    sig.body = (p.i + 1, close)
    return sig


def parse_body(item, sig):
    p = Parser(item.toks, sig.body[0], sig.body[1])
    stmts, tail = p.parse_stmts()
    return Node("block", sig.body[0] - 1, sig.body[1] + 1, stmts=stmts, tail=tail)


def parse_const(item):
    """returns (name, type Node, expr Node)"""
    toks = item.toks
    p = Parser(toks, item.lo, item.hi - 1)   # drop ';'
    while is_id(p.peek()) and p.peek().val in ("pub",):
        p.i += 1
        if is_p(p.peek(), "("):
            p.i = match_close(toks, p.i) + 1
    if not (p.eat_id("const") or p.eat_id("static")):
        p.err("expected const")
    name = p.expect_ident()
    p.expect_p(":")
    ty = p.parse_type()
    p.expect_p("=")
    e = p.parse_expr(0)
    if not p.at_end():
        p.err("trailing tokens in const")
    return name, ty, e


def parse_enum(item):
    """returns (name, [(variant, expr Node or None, has_payload)])"""
    toks = item.toks
    p = Parser(toks, item.lo, item.hi)
    while is_id(p.peek()) and p.peek().val == "pub":
        p.i += 1
        if is_p(p.peek(), "("):
            p.i = match_close(toks, p.i) + 1
    if not p.eat_id("enum"):
        p.err("expected enum")
    name = p.expect_ident()
    if is_p(p.peek(), "<"):
        p.i = _skip_generics(toks, p.i)
    p.expect_p("{")
    variants = []
    while not p.eat_p("}"):
        while is_p(p.peek(), "#"):
            k = match_close(toks, p.i + 1)
            p.i = k + 1
        v = p.expect_ident()
        payload = False
        disc = None
        if is_p(p.peek(), "(") or is_p(p.peek(), "{"):
            p.i = match_close(toks, p.i) + 1
            payload = True
        if p.eat_p("="):
            disc = p.parse_expr(0)
        variants.append((v, disc, payload))
        if not p.eat_p(","):
            p.expect_p("}")
            break
    return name, variants


def parse_struct(item):
    """returns (name, form, [(field_name, type Node)]) with form in 'tuple' | 'named' | 'unit'"""
    toks = item.toks
    p = Parser(toks, item.lo, item.hi)
    while is_id(p.peek()) and p.peek().val == "pub":
        p.i += 1
        if is_p(p.peek(), "("):
            p.i = match_close(toks, p.i) + 1
    if not p.eat_id("struct"):
        p.err("expected struct")
    name = p.expect_ident()
    if is_p(p.peek(), "<"):
        p.i = _skip_generics(toks, p.i)
    fields = []
    if p.eat_p(";"):
        return name, "unit", fields
    if is_p(p.peek(), "("):
        p.i += 1
        n = 0
        while not p.eat_p(")"):
            while is_p(p.peek(), "#"):
                k = match_close(toks, p.i + 1)
                p.i = k + 1
            if p.eat_id("pub"):
                if is_p(p.peek(), "("):
                    p.i = match_close(toks, p.i) + 1
            fields.append((str(n), p.parse_type()))
            n += 1
            if not p.eat_p(","):
                p.expect_p(")")
                break
        return name, "tuple", fields
    while not is_p(p.peek(), "{"):
        p.i += 1
    p.i += 1
    while not p.eat_p("}"):
        while is_p(p.peek(), "#"):
            k = match_close(toks, p.i + 1)
            p.i = k + 1
        if p.eat_id("pub"):
            if is_p(p.peek(), "("):
                p.i = match_close(toks, p.i) + 1
        fname = p.expect_ident()
        p.expect_p(":")
        fields.append((fname, p.parse_type()))
        if not p.eat_p(","):
            p.expect_p("}")
            break
    return name, "named", fields

# gir.py -- the small Gallina term language emitted by rust2gallina.py,
# its printer and a closed-term evaluator (used for constants, array lengths and
# shift-amount checks).  python3 stdlib only.
#
# Terms are tuples:
#   ('num', n) ('var', x) ('true',) ('false',)
#   ('app', f, [args])            f is a Gallina function name (builtin or kernel)
#   ('if', c, a, b) ('let', x, e, body) ('letpair', [x..], e, body)
#   ('some', e) ('none',) ('matchopt', scrut, x, some_body, none_body)
#   ('pair', [e..]) ('mk', ctor, [e..]) ('proj', projname, e)
#   ('fun2', x, y, body)          two-argument lambda (loop bodies only)


class EvalError(Exception):
    pass


INFIX = {
    "N.add": ("+", 50), "N.sub": ("-", 50), "N.mul": ("*", 40), "N.div": ("/", 40),
    "N.modulo": ("mod", 40),
    "N.eqb": ("=?", 70), "N.ltb": ("<?", 70), "N.leb": ("<=?", 70),
    "andb": ("&&", 40), "orb": ("||", 50),
}

RESERVED = {
    "end", "in", "as", "at", "fix", "fun", "forall", "match", "with", "then", "else", "if",
    "let", "return", "Type", "Set", "Prop", "using", "where", "mod", "cofix", "exists",
    "for", "struct", "IF", "do",
}


def gname(x):
    x = x.replace("'", "_")
    if x in RESERVED:
        return x + "_"
    return x


def pp(t, indent=2):
    """Print a term; every compound sub-term is parenthesised (robust, not pretty)."""
    k = t[0]
    if k == "num":
        return str(t[1])
    if k == "var":
        return gname(t[1])
    if k == "true":
        return "true"
    if k == "false":
        return "false"
    if k == "none":
        return "None"
    if k == "some":
        return "(Some %s)" % pp(t[1])
    if k == "app":
        f, args = t[1], t[2]
        if not args:
            return f
        if f in INFIX and len(args) == 2:
            return "(%s %s %s)" % (pp(args[0]), INFIX[f][0], pp(args[1]))
        return "(%s %s)" % (f, " ".join(pp(a) for a in args))
    if k == "if":
        return "(if %s then %s else %s)" % (pp(t[1]), pp(t[2]), pp(t[3]))
    if k == "let":
        return "(let %s := %s in\n   %s)" % (gname(t[1]), pp(t[2]), pp(t[3]))
    if k == "letpair":
        return "(let '(%s) := %s in\n   %s)" % (", ".join(gname(x) for x in t[1]), pp(t[2]), pp(t[3]))
    if k == "matchopt":
        return "(match %s with Some %s => %s | None => %s end)" % (
            pp(t[1]), gname(t[2]), pp(t[3]), pp(t[4]))
    if k == "pair":
        return "(%s)" % ", ".join(pp(e) for e in t[1])
    if k == "mk":
        return "(%s %s)" % (t[1], " ".join(pp(e) for e in t[2]))
    if k == "proj":
        return "(%s %s)" % (t[1], pp(t[2]))
    if k == "fun2":
        return "(fun %s %s => %s)" % (gname(t[1]), gname(t[2]), pp(t[3]))
    raise ValueError("pp: unknown term %r" % (t,))


def free_vars(t, bound=frozenset()):
    k = t[0]
    if k == "var":
        return set() if t[1] in bound else {t[1]}
    if k in ("num", "true", "false", "none"):
        return set()
    if k == "some":
        return free_vars(t[1], bound)
    if k == "app":
        s = set()
        for a in t[2]:
            s |= free_vars(a, bound)
        return s
    if k == "if":
        return free_vars(t[1], bound) | free_vars(t[2], bound) | free_vars(t[3], bound)
    if k == "let":
        return free_vars(t[2], bound) | free_vars(t[3], bound | {t[1]})
    if k == "letpair":
        return free_vars(t[2], bound) | free_vars(t[3], bound | set(t[1]))
    if k == "matchopt":
        return free_vars(t[1], bound) | free_vars(t[3], bound | {t[2]}) | free_vars(t[4], bound)
    if k in ("pair", "mk"):
        s = set()
        for a in t[-1]:
            s |= free_vars(a, bound)
        return s
    if k == "proj":
        return free_vars(t[2], bound)
    if k == "fun2":
        return free_vars(t[3], bound | {t[1], t[2]})
    raise ValueError("free_vars: %r" % (t,))


def _shiftl(a, b):
    if b > 4096:
        raise EvalError("shift too large")
    return a << b


BUILTINS = {
    "N.add": lambda a, b: a + b,
    "N.sub": lambda a, b: max(a - b, 0),
    "N.mul": lambda a, b: a * b,
    "N.div": lambda a, b: 0 if b == 0 else a // b,
    "N.modulo": lambda a, b: a if b == 0 else a % b,
    "N.land": lambda a, b: a & b,
    "N.lor": lambda a, b: a | b,
    "N.lxor": lambda a, b: a ^ b,
    "N.shiftl": _shiftl,
    "N.shiftr": lambda a, b: a >> b,
    "N.eqb": lambda a, b: a == b,
    "N.ltb": lambda a, b: a < b,
    "N.leb": lambda a, b: a <= b,
    "andb": lambda a, b: a and b,
    "orb": lambda a, b: a or b,
    "negb": lambda a: not a,
}


def ev(t, env, defs):
    """Evaluate a term.  env: var -> value.  defs: name -> (params, body term).
    Values: int, bool, None / ('some', v), tuples for pairs and records."""
    k = t[0]
    if k == "num":
        return t[1]
    if k == "true":
        return True
    if k == "false":
        return False
    if k == "var":
        if t[1] in env:
            return env[t[1]]
        if t[1] in defs and not defs[t[1]][0]:
            return ev(defs[t[1]][1], {}, defs)
        raise EvalError("unbound variable %s" % t[1])
    if k == "none":
        return None
    if k == "some":
        return ("some", ev(t[1], env, defs))
    if k == "app":
        f, args = t[1], [ev(a, env, defs) for a in t[2]]
        if f in BUILTINS:
            return BUILTINS[f](*args)
        if f in defs:
            params, body = defs[f]
            if len(params) != len(args):
                raise EvalError("arity mismatch calling %s" % f)
            return ev(body, dict(zip(params, args)), defs)
        raise EvalError("unknown function %s" % f)
    if k == "if":
        return ev(t[2], env, defs) if ev(t[1], env, defs) else ev(t[3], env, defs)
    if k == "let":
        e2 = dict(env)
        e2[t[1]] = ev(t[2], env, defs)
        return ev(t[3], e2, defs)
    if k == "letpair":
        v = ev(t[2], env, defs)
        e2 = dict(env)
        for x, y in zip(t[1], v[1]):
            e2[x] = y
        return ev(t[3], e2, defs)
    if k == "matchopt":
        v = ev(t[1], env, defs)
        if v is None:
            return ev(t[4], env, defs)
        e2 = dict(env)
        e2[t[2]] = v[1]
        return ev(t[3], e2, defs)
    if k == "pair":
        return ("pair", [ev(e, env, defs) for e in t[1]])
    if k == "mk":
        return ("rec", t[1], [ev(e, env, defs) for e in t[2]])
    if k == "proj":
        v = ev(t[2], env, defs)
        idx = defs["__proj__"][t[1]]
        return v[2][idx]
    raise EvalError("ev: unknown term %r" % (t,))


# convenience constructors
def num(n):
    return ("num", n)


def var(x):
    return ("var", x)


def app(f, *args):
    return ("app", f, list(args))


def pow2(w):
    return ("num", 1 << w)

# r2g_fn.py -- statement-level translation (function bodies, consts, enums, structs, sites).
# python3 stdlib only.

import rustfront as rf
from rustfront import node_text, toks_text
import gir
from gir import num, var, app
from r2g_core import (Fail, Tr, Def, RecordDef, BOOL, UNIT, tint, under, is_int, width, gtype,
                      same_type, TRACING_MACROS)


def contains_panic(t):
    return "__PANIC__" in gir.free_vars(t)


class FnTr(Tr):
    """Translation of a whole function body."""

    def setup(self, ret_ty):
        self.ret_ty = ret_ty
        self.state_name = None     # gallina var carrying the mutable state, if any
        self.state_out = None      # None | 'state' | 'pair'

    # ---- exits
    def finish(self, t, ty, node=None):
        """wrap the value leaving the function"""
        if self.array is not None and self.array["mode"] == "slot":
            out = var(self.array["slot_cur"])
        else:
            if self.ret_ty == UNIT:
                if t is not None and ty != UNIT:
                    self.fail("value returned from a unit function", node)
                out = None
            else:
                if t is None:
                    self.fail("missing return value", node)
                if ty != self.ret_ty and not (ty[0] == "option" and self.ret_ty[0] == "option"
                                              and t == ("none",)):
                    self.fail("return type mismatch: got %r, expected %r" % (ty, self.ret_ty), node)
                out = t
            if self.state_out == "state":
                if out is not None:
                    self.fail("internal: state function with a value", node)
                out = var(self.state_name)
            elif self.state_out == "pair":
                out = ("pair", [out, var(self.state_name)])
            elif out is None:
                out = ("pair", [])
        if self.partial:
            if contains_panic(out):
                out = self.lift_panic(out, node)
            else:
                out = ("some", out)
        return out

    def lift_panic(self, t, node):
        k = t[0]
        if k == "let":
            if contains_panic(t[2]):
                self.fail("panic outside a tail position", node)
            return ("let", t[1], t[2], self.lift_panic(t[3], node))
        if k == "if":
            if contains_panic(t[1]):
                self.fail("panic outside a tail position", node)
            return ("if", t[1], self.lift_panic(t[2], node), self.lift_panic(t[3], node))
        if t == ("var", "__PANIC__"):
            return ("none",)
        if contains_panic(t):
            self.fail("panic outside a tail position", node)
        return ("some", t)

    def flush(self, term, pend):
        for v, call in reversed(pend):
            term = ("matchopt", call, v, term, ("none",))
        return term

    def take_pending(self):
        p = self.pending
        self.pending = []
        return p

    # ---- effects
    def effect(self, e, env):
        """e is an expression with a side effect on a place.
        returns (value_term or None, value_ty, place, new_state_term) or None if e has no effect"""
        while e.kind == "paren":
            e = e.e
        if e.kind == "unsafe" and not e.block.stmts and e.block.tail is not None:
            return self.effect(e.block.tail, env)
        lst = self.spec.get("list")
        if e.kind == "mcall" and e.name == "store" and lst is not None and len(e.args) == 1 \
                and e.recv.kind == "index" and self.text(e.recv.e) == lst["place"]:
            cur, lty = self.read_place(lst["place"], e)
            i, ti = self.expr(e.recv.idx, env, tint("usize"))
            ety = lty[1][1] if lty[1][0] == "atomic" else lty[1]
            a, ta = self.expr(e.args[0], env, ety)
            if ti != tint("usize") or not same_type(ta, ety):
                self.fail("list store type mismatch", e)
            return None, UNIT, lst["place"], app("k_set_nth", cur, i, a)
        if e.kind == "mcall" and e.name in ("fetch_or", "fetch_and", "store"):
            place = self.place_of(e.recv)
            if place is None:
                self.fail("atomic update of an unknown place", e)
            cur, ty = self.read_place(place, e)
            if ty[0] != "atomic" and not self.spec.get("plain_cells"):
                self.fail("%s on a non-atomic place" % e.name, e)
            vty = ty[1] if ty[0] == "atomic" else ty
            nargs = 1 if self.spec.get("no_ordering_arg") else 2
            if len(e.args) != nargs:
                self.fail("unexpected arguments to %s" % e.name, e)
            if nargs == 2 and not self.text(e.args[1]).startswith("Ordering ::"):
                self.fail("expected a memory ordering argument", e)
            a, ta = self.expr(e.args[0], env, vty)
            if not same_type(ta, vty):
                self.fail("%s argument type mismatch" % e.name, e)
            if e.name == "fetch_or":
                return cur, vty, place, app("N.lor", cur, a)
            if e.name == "fetch_and":
                return cur, vty, place, app("N.land", cur, a)
            return None, UNIT, place, a
        if e.kind == "assign":
            place = self.place_of(e.l)
            if place is None:
                self.fail("assignment to an unknown place", e)
            cur, ty = self.read_place(place, e)
            vty = ty[1] if ty[0] == "atomic" else ty
            a, ta = self.expr(e.r, env, vty)
            if not same_type(ta, vty):
                self.fail("assignment type mismatch", e)
            if e.op == "=":
                return None, UNIT, place, a
            op = e.op[:-1]
            if op in ("<<", ">>"):
                self.fail("shift-assign is not supported", e)
            if under(vty)[0] != "int":
                self.fail("compound assignment on non-integer", e)
            return None, UNIT, place, self.binop(op, cur, a, under(vty), e)
        if e.kind == "if" and e.els is not None and e.els.kind == "block":
            a = self.block_effect(e.then, env)
            b = self.block_effect(e.els, env)
            if a is None and b is None:
                return None
            if a is None or b is None:
                self.fail("only one branch of the if updates state", e)
            if a[2] != b[2] or a[1] != b[1]:
                self.fail("branches update different places", e)
            c, tc = self.expr(e.cond, env, BOOL)
            if tc != BOOL:
                self.fail("if condition is not bool", e)
            if a[0] is None:
                return None, UNIT, a[2], ("if", c, a[3], b[3])
            pv, ps = self.newvar("v"), self.newvar("s")
            # value and new state as one pair-valued conditional
            self.pair_cond = ("if", c, ("pair", [a[0], a[3]]), ("pair", [b[0], b[3]]))
            return ("__PAIR__",), a[1], a[2], None
        return None

    def block_effect(self, b, env):
        if b.stmts or b.tail is None:
            if len(b.stmts) == 1 and b.tail is None and b.stmts[0].kind == "expr":
                return self.effect(b.stmts[0].e, env)
            return None
        return self.effect(b.tail, env)

    def bind_state(self, place, new_state, rest_fn):
        name, ty = self.places[place]
        self.wrote = True
        return ("let", name, new_state, rest_fn())

    # ---- statements
    def body(self, block, env):
        return self.stmts(list(block.stmts), block.tail, env, block)

    def stmts(self, ss, tail, env, node):
        if not ss:
            if tail is None:
                return self.finish(None, UNIT, node)
            return self.tail_expr(tail, env)
        s, rest = ss[0], ss[1:]
        if s.attrs:
            self.fail("attribute on a statement", s)
        if s.kind == "let":
            return self.let_stmt(s, rest, tail, env)
        e = s.e
        if self.is_ignorable(e):
            return self.stmts(rest, tail, env, node)
        if e.kind == "macro":
            return self.macro_stmt(e, rest, tail, env, node)
        if e.kind == "return":
            if rest or tail is not None:
                self.fail("code after return", s)
            return self.return_expr(e, env)
        if e.kind == "if":
            return self.if_stmt(e, rest, tail, env, node)
        if e.kind == "for":
            return self.for_stmt(e, rest, tail, env, node)
        # array fill
        if e.kind == "mcall" and e.name == "fill" and self.array is not None \
                and self.array["mode"] == "slot":
            return self.fill_stmt(e, rest, tail, env, node)
        if e.kind == "mcall" and e.recv.kind == "path" and e.recv.segs == ["self"]:
            d = self.w.methods.get((self.container, e.name))
            if d is not None and d.state_out == "state":
                return self.state_call_stmt(d, e, rest, tail, env, node)
        eff = self.effect(e, env)
        if eff is None:
            self.fail("unsupported statement", s)
        v, vty, place, ns = eff
        pend = self.take_pending()
        if v == ("__PAIR__",):
            name, _ = self.places[place]
            self.wrote = True
            t = ("letpair", [self.newvar("unused"), name], self.pair_cond,
                 self.stmts(rest, tail, env, node))
        else:
            t = self.bind_state(place, ns, lambda: self.stmts(rest, tail, env, node))
        return self.flush(t, pend)

    def state_call_stmt(self, d, e, rest, tail, env, node):
        place = self.spec["state_place"]
        name, pty = self.places[place]
        terms = [var(name)]
        params = d.params[1:]
        if len(params) != len(e.args):
            self.fail("arity mismatch calling %s" % d.name, e)
        for (pn, pt), a in zip(params, e.args):
            t, ty = self.expr(a, env, pt)
            if ty != pt:
                self.fail("argument type mismatch calling %s" % d.name, a)
            terms.append(t)
        pend = self.take_pending()
        self.wrote = True
        t = ("let", name, app(d.name, *terms), self.stmts(rest, tail, env, node))
        return self.flush(t, pend)

    def macro_stmt(self, e, rest, tail, env, node):
        name = e.segs[-1]
        toks = self.toks
        lo, hi = e.inner
        if name in ("debug_assert", "assert", "assert_ne", "assert_eq", "debug_assert_eq",
                    "debug_assert_ne"):
            # split arguments at top-level commas
            parts = []
            depth = 0
            start = lo
            i = lo
            while i < hi:
                t = toks[i]
                if t.kind == "p" and t.val in rf.OPEN:
                    i = rf.match_close(toks, i)
                elif t.kind == "p" and t.val == ",":
                    parts.append((start, i))
                    start = i + 1
                i += 1
            if start < hi:
                parts.append((start, hi))

            def parse(rng):
                p = rf.Parser(toks, rng[0], rng[1])
                try:
                    x = p.parse_expr(0)
                    if not p.at_end():
                        p.err("trailing tokens")
                except rf.ParseError as ex:
                    self.fail("cannot parse %s! argument: %s" % (name, ex), e)
                return x
            base = name.replace("debug_", "")
            if base == "assert":
                c, tc = self.expr(parse(parts[0]), env, BOOL)
                if tc != BOOL:
                    self.fail("assert condition is not bool", e)
                msgs = parts[1:]
            else:
                a, ta = self.expr(parse(parts[0]), env, None)
                b, tb = self.expr(parse(parts[1]), env, ta)
                if not same_type(ta, tb):
                    self.fail("%s! on different types" % name, e)
                self.check_eq(ta, e)
                c = app("N.eqb", a, b)
                if base == "assert_ne":
                    c = app("negb", c)
                msgs = parts[2:]
            for m in msgs[:1]:
                if toks[m[0]].kind != "str":
                    self.fail("assert message must be a string literal", e)
            pend = self.take_pending()
            if pend:
                self.fail("partial call inside an assertion", e)
            if name.startswith("debug_"):
                self.pre.append(c)
                return self.stmts(rest, tail, env, node)
            if self.spec.get("asserts") == "separate":
                self.rejects.append(app("negb", c))
                return self.stmts(rest, tail, env, node)
            if not self.partial:
                self.fail("assertion in a kernel not declared partial", e)
            return ("if", c, self.stmts(rest, tail, env, node), ("none",))
        self.fail("unsupported macro statement %s!" % name, e)

    def let_stmt(self, s, rest, tail, env):
        pat = s.pat
        if s.init is None:
            self.fail("let without initialiser", s)
        opaque = self.spec.get("opaque_lets", {})
        if pat.kind == "pbind" and pat.name in opaque:
            expected, gname_, ty = opaque[pat.name]
            got = self.text(s.init)
            if got != expected:
                self.fail("initialiser of `%s` changed: expected `%s`, found `%s`"
                          % (pat.name, expected, got), s)
            env2 = dict(env)
            if ty is not None:
                env2[pat.name] = (var(gname_), ty)
            return self.stmts(rest, tail, env2, s)
        # let Some(x) = e else { ... };
        if s.els is not None:
            if not (pat.kind == "pctor" and pat.segs == ["Some"] and len(pat.elems) == 1
                    and pat.elems[0].kind == "pbind"):
                self.fail("unsupported let-else pattern", s)
            x = pat.elems[0].name
            t, ty = self.expr(s.init, env, None)
            pend = self.take_pending()
            if ty[0] != "option":
                self.fail("let-else on a non-option", s)
            els = self.diverging_block(s.els, env)
            env2 = dict(env)
            env2[x] = (var(x), ty[1])
            out = ("matchopt", t, x, self.stmts(rest, tail, env2, s), els)
            return self.flush(out, pend)
        if pat.kind != "pbind":
            self.fail("unsupported let pattern", s)
        # place alias: let count = self.cancellation_count.get_mut();
        if s.init.kind == "mcall" and s.init.name == "get_mut" and not s.init.args:
            place = self.place_of(s.init.recv)
            if place is None:
                self.fail("get_mut of an unknown place", s)
            self.aliases[pat.name] = place
            return self.stmts(rest, tail, env, s)
        want = self.resolve_type(s.ty) if s.ty is not None else None
        eff = self.effect(s.init, env)
        if eff is not None:
            v, vty, place, ns = eff
            pend = self.take_pending()
            name, _ = self.places[place]
            env2 = dict(env)
            env2[pat.name] = (var(pat.name), vty)
            self.wrote = True
            if v == ("__PAIR__",):
                out = ("letpair", [pat.name, name], self.pair_cond,
                       self.stmts(rest, tail, env2, s))
            else:
                if v is None:
                    self.fail("let bound to a unit-valued update", s)
                out = ("let", pat.name, v, ("let", name, ns, self.stmts(rest, tail, env2, s)))
            return self.flush(out, pend)
        t, ty = self.expr(s.init, env, want)
        if want is not None and ty != want:
            self.fail("let type annotation mismatch", s)
        pend = self.take_pending()
        env2 = dict(env)
        env2[pat.name] = (var(pat.name), ty)
        if pat.name in self.aliases:
            del self.aliases[pat.name]
        out = ("let", pat.name, t, self.stmts(rest, tail, env2, s))
        return self.flush(out, pend)

    def diverging_block(self, b, env):
        """a block that must end in `return`"""
        ss = list(b.stmts)
        if b.tail is not None:
            if b.tail.kind != "return":
                self.fail("block must end in return", b)
            last = b.tail
        else:
            if not ss or ss[-1].kind != "expr" or ss[-1].e.kind != "return":
                self.fail("block must end in return", b)
            last = ss.pop().e
        for s in ss:
            if not (s.kind == "expr" and self.is_ignorable(s.e)):
                self.fail("unsupported statement before return", s)
        return self.return_expr(last, env)

    def return_expr(self, e, env):
        if e.e is None:
            return self.finish(None, UNIT, e)
        t, ty = self.expr(e.e, env, self.ret_ty)
        pend = self.take_pending()
        return self.flush(self.finish(t, ty, e), pend)

    def ends_in_return(self, b):
        if b.tail is not None:
            return b.tail.kind == "return"
        return bool(b.stmts) and b.stmts[-1].kind == "expr" and b.stmts[-1].e.kind == "return"

    def if_stmt(self, e, rest, tail, env, node):
        if e.els is None and self.ends_in_return(e.then):
            c, tc = self.expr(e.cond, env, BOOL)
            pend = self.take_pending()
            if tc != BOOL:
                self.fail("if condition is not bool", e)
            a = self.stmts(list(e.then.stmts), e.then.tail, env, e.then)
            b = self.stmts(rest, tail, env, node)
            return self.flush(("if", c, a, b), pend)
        if not rest and tail is None and e.els is not None:
            return self.tail_expr(e, env)
        eff = self.effect(e, env)
        if eff is not None and eff[0] is None:
            pend = self.take_pending()
            t = self.bind_state(eff[2], eff[3], lambda: self.stmts(rest, tail, env, node))
            return self.flush(t, pend)
        self.fail("unsupported if statement", e)

    def tail_expr(self, e, env):
        while e.kind == "paren":
            e = e.e
        if e.kind == "return":
            return self.return_expr(e, env)
        if e.kind == "unsafe" or e.kind == "block":
            b = e.block if e.kind == "unsafe" else e
            # a tail block: translate its statements in sequence
            # (only when it contains control flow; plain value blocks go through expr)
            if any(s.kind == "expr" and s.e.kind in ("if", "return") for s in b.stmts):
                return self.stmts(list(b.stmts), b.tail, env, b)
        if e.kind == "if" and e.els is not None and \
                (self.has_control(e.then) or (e.els.kind == "block" and self.has_control(e.els))):
            c, tc = self.expr(e.cond, env, BOOL)
            pend = self.take_pending()
            if tc != BOOL:
                self.fail("if condition is not bool", e)
            a = self.stmts(list(e.then.stmts), e.then.tail, env, e.then)
            if e.els.kind == "block":
                b = self.stmts(list(e.els.stmts), e.els.tail, env, e.els)
            else:
                b = self.tail_expr(e.els, env)
            return self.flush(("if", c, a, b), pend)
        eff = self.effect(e, env) if e.kind in ("mcall", "assign") else None
        if eff is not None:
            v, vty, place, ns = eff
            pend = self.take_pending()
            name, _ = self.places[place]
            self.wrote = True
            if v is None:
                return self.flush(("let", name, ns, self.finish(None, UNIT, e)), pend)
            x = self.newvar("prev")
            return self.flush(("let", x, v, ("let", name, ns, self.finish(var(x), vty, e))), pend)
        if e.kind == "mcall" and e.recv.kind == "path" and e.recv.segs == ["self"]:
            d = self.w.methods.get((self.container, e.name))
            if d is not None and d.state_out == "state":
                return self.state_call_stmt(d, e, [], None, env, e)
        t, ty = self.expr(e, env, self.ret_ty if self.ret_ty != UNIT else None)
        pend = self.take_pending()
        return self.flush(self.finish(t, ty, e), pend)

    def has_control(self, b):
        for s in b.stmts:
            if s.kind == "expr" and (s.e.kind in ("return", "if", "macro") or
                                     self.effect_like(s.e)):
                return True
            if s.kind == "let" and s.els is not None:
                return True
        return b.tail is not None and b.tail.kind == "return"

    def effect_like(self, e):
        return e.kind == "assign" or (e.kind == "mcall" and e.name in
                                      ("fetch_or", "fetch_and", "store", "fill"))

    # ---- arrays: self.revisions[lo..=hi].fill(v)
    def fill_stmt(self, e, rest, tail, env, node):
        r = e.recv
        if r.kind != "index" or self.text(r.e) != self.array["place"] or r.idx.kind != "range":
            self.fail("unsupported fill target", e)
        rng = r.idx
        if rng.lo_e is None or rng.hi_e is None:
            self.fail("open-ended fill range", e)
        if len(e.args) != 1:
            self.fail("fill arity", e)
        lo_t, tl = self.expr(rng.lo_e, env, tint("usize"))
        hi_t, th = self.expr(rng.hi_e, env, tint("usize"))
        if tl != tint("usize") or th != tint("usize"):
            self.fail("fill range bounds must be usize", e)
        v, tv = self.expr(e.args[0], env, self.array["elem"])
        if not same_type(tv, self.array["elem"]):
            self.fail("fill value type mismatch", e)
        pend = self.take_pending()
        j = var(self.array["slot_index"])
        upper = app("N.leb", j, hi_t) if rng.inclusive else app("N.ltb", j, hi_t)
        cond = app("andb", app("N.leb", lo_t, j), upper)
        cur = self.array["slot_cur"]
        self.wrote = True
        # record the in-bounds obligation of the slice expression
        n = self.array_len()
        end = app("N.add", hi_t, num(1)) if rng.inclusive else hi_t
        self.bounds = getattr(self, "bounds", [])
        self.bounds.append(app("andb", app("N.leb", lo_t, end), app("N.leb", end, num(n))))
        t = ("let", cur, ("if", cond, v, var(cur)), self.stmts(rest, tail, env, node))
        return self.flush(t, pend)

    # ---- lists: the shift loop of RevisionQueue::record_cold
    def for_stmt(self, e, rest, tail, env, node):
        lst = self.spec.get("list")
        if lst is None:
            self.fail("for loops are only supported over the retention queue", e)
        it = e.iter
        while it.kind == "paren":
            it = it.e
        # (lo..hi).rev()
        if not (it.kind == "mcall" and it.name == "rev" and not it.args):
            self.fail("unsupported loop iterator", e)
        rng = it.recv
        while rng.kind == "paren":
            rng = rng.e
        if rng.kind != "range" or rng.inclusive or rng.lo_e is None or rng.hi_e is None:
            self.fail("unsupported loop range", e)
        if e.pat.kind != "pbind":
            self.fail("unsupported loop pattern", e)
        i = e.pat.name
        lo_t, tl = self.expr(rng.lo_e, env, tint("usize"))
        hi_t, th = self.expr(rng.hi_e, env, tint("usize"))
        if tl != tint("usize") or th != tint("usize"):
            self.fail("loop bounds must be usize", e)
        # body: exactly  PLACE[i].store(PLACE[j].load());
        b = e.body
        if len(b.stmts) != 1 or b.tail is not None or b.stmts[0].kind != "expr":
            self.fail("unsupported loop body", e)
        st = b.stmts[0].e
        place = lst["place"]
        if not (st.kind == "mcall" and st.name == "store" and len(st.args) == 1
                and st.recv.kind == "index" and self.text(st.recv.e) == place):
            self.fail("unsupported loop body", e)
        src = st.args[0]
        if not (src.kind == "mcall" and src.name == "load" and not src.args
                and src.recv.kind == "index" and self.text(src.recv.e) == place):
            self.fail("unsupported loop body", e)
        name, lty = self.places[place]
        env2 = dict(env)
        env2[i] = (var(i), tint("usize"))
        acc = self.newvar("q")
        saved = self.places[place]
        self.places[place] = (acc, lty)
        dst_i, _ = self.expr(st.recv.idx, env2, tint("usize"))
        src_i, _ = self.expr(src.recv.idx, env2, tint("usize"))
        self.places[place] = saved
        pend = self.take_pending()
        if pend:
            self.fail("partial call inside a loop", e)
        self.wrote = True
        step = ("fun2", acc, i, app("k_set_nth", var(acc), dst_i, app("k_nth", var(acc), src_i)))
        loop = app("k_fold_range_rev", step, lo_t, hi_t, var(name))
        return ("let", name, loop, self.stmts(rest, tail, env, node))

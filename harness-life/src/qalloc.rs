//! A counting, poisoning, quarantining global allocator (the "quarantining, poisoning allocator"
//! of property C23's quantifier).
//!
//! * counts live allocations (`live()`), so that a history can check that dropping the database
//!   returns the count to what it was before the database was created;
//! * when `set_quarantine(true)`: a freed block is overwritten with 0xDD and parked in a FIFO
//!   ring instead of being returned to the system, so that a read through a dangling reference
//!   sees poison (reference revalidation then reports a changed value) and the address is not
//!   recycled; when a block leaves the ring (ring full, or `flush()`) its poison is verified —
//!   a damaged byte means somebody wrote through a dangling pointer (`write_after_free()`).
//!
//! Not compiled in under Miri (Miri has its own, exact, checks).

use std::alloc::{GlobalAlloc, Layout, System};
use std::sync::atomic::{AtomicBool, AtomicI64, AtomicU64, Ordering};

pub struct QAlloc;

const POISON: u8 = 0xDD;
const RING: usize = 1 << 16;
/// blocks larger than this are not quarantined (pages of 128 slots are ~10 KiB; keep them)
const MAX_BLOCK: usize = 1 << 20;

static LIVE: AtomicI64 = AtomicI64::new(0);
static QUARANTINE: AtomicBool = AtomicBool::new(false);
static WAF: AtomicU64 = AtomicU64::new(0);
static LOCK: AtomicBool = AtomicBool::new(false);

#[derive(Clone, Copy)]
struct Entry {
    ptr: *mut u8,
    size: usize,
    align: usize,
}

struct Ring {
    buf: [Entry; RING],
    head: usize,
    len: usize,
}

static mut RINGBUF: Ring = Ring {
    buf: [Entry {
        ptr: std::ptr::null_mut(),
        size: 0,
        align: 1,
    }; RING],
    head: 0,
    len: 0,
};

fn lock() {
    while LOCK
        .compare_exchange_weak(false, true, Ordering::Acquire, Ordering::Relaxed)
        .is_err()
    {
        std::hint::spin_loop();
    }
}

fn unlock() {
    LOCK.store(false, Ordering::Release);
}

/// # Safety: `e` must be a block parked by `dealloc`.
unsafe fn release(e: Entry) {
    // SAFETY: the block is still owned by the ring.
    unsafe {
        let bytes = std::slice::from_raw_parts(e.ptr, e.size);
        if bytes.iter().any(|b| *b != POISON) {
            WAF.fetch_add(1, Ordering::Relaxed);
        }
        System.dealloc(e.ptr, Layout::from_size_align_unchecked(e.size, e.align));
    }
}

// SAFETY: delegates to `System`; parked blocks are released exactly once.
unsafe impl GlobalAlloc for QAlloc {
    unsafe fn alloc(&self, layout: Layout) -> *mut u8 {
        LIVE.fetch_add(1, Ordering::Relaxed);
        // SAFETY: forwarded.
        unsafe { System.alloc(layout) }
    }

    unsafe fn dealloc(&self, ptr: *mut u8, layout: Layout) {
        LIVE.fetch_sub(1, Ordering::Relaxed);
        if !QUARANTINE.load(Ordering::Relaxed) || layout.size() == 0 || layout.size() > MAX_BLOCK {
            // SAFETY: forwarded.
            unsafe { System.dealloc(ptr, layout) };
            return;
        }
        // SAFETY: the block is ours until it is handed back to `System`.
        unsafe { std::ptr::write_bytes(ptr, POISON, layout.size()) };
        let e = Entry {
            ptr,
            size: layout.size(),
            align: layout.align(),
        };
        lock();
        // SAFETY: `RINGBUF` is only touched under `LOCK`.
        let evicted = unsafe {
            let ring = &mut *std::ptr::addr_of_mut!(RINGBUF);
            let mut evicted = None;
            if ring.len == RING {
                evicted = Some(ring.buf[ring.head]);
                ring.head = (ring.head + 1) % RING;
                ring.len -= 1;
            }
            let tail = (ring.head + ring.len) % RING;
            ring.buf[tail] = e;
            ring.len += 1;
            evicted
        };
        unlock();
        if let Some(old) = evicted {
            // SAFETY: `old` left the ring.
            unsafe { release(old) };
        }
    }
}

pub fn live() -> i64 {
    LIVE.load(Ordering::SeqCst)
}

pub fn set_quarantine(on: bool) {
    QUARANTINE.store(on, Ordering::SeqCst);
}

/// Release every parked block (verifying its poison).
pub fn flush() {
    loop {
        lock();
        // SAFETY: `RINGBUF` is only touched under `LOCK`.
        let e = unsafe {
            let ring = &mut *std::ptr::addr_of_mut!(RINGBUF);
            if ring.len == 0 {
                None
            } else {
                let e = ring.buf[ring.head];
                ring.head = (ring.head + 1) % RING;
                ring.len -= 1;
                Some(e)
            }
        };
        unlock();
        match e {
            // SAFETY: `e` left the ring.
            Some(e) => unsafe { release(e) },
            None => break,
        }
    }
}

pub fn write_after_free() -> u64 {
    WAF.load(Ordering::SeqCst)
}

//! harness-life — C23: generated sequential histories against the real salsa crate, with
//! lifetime events (hook H4, `salsa::verif_life`), reference revalidation and a poisoning,
//! quarantining, counting allocator.
//!
//!     harness-life --seed S --cases N [--first K] [--small] [--no-count]
//!
//! A *program* is data (one body per function family and key, `Case`), every tracked function's
//! body interprets its entry against the real salsa API.  A *history* is a list of phases: one
//! `&mut` operation (input write, synthetic write, LRU eviction, LRU capacity change) followed
//! by a read phase.  During a read phase every reference returned by a tracked function or a
//! field getter is KEPT (`Held`), together with a deep copy of what it denoted; just before the
//! next `&mut` operation every kept reference is read again and compared (`h reval`).  Bodies can
//! be told to panic or to request local cancellation at their n-th evaluation.  The history ends
//! with `drop(db)`.
//!
//! Each case runs twice: pass 1 records the H4 trace with the allocator poisoning and
//! quarantining every freed block (a read through a dangling reference then sees 0xDD.. and the
//! revalidation reports a changed value; a write through one is found when the block leaves the
//! quarantine); pass 2 runs the same case with recording and quarantine off and compares the
//! number of live heap allocations before the database is created and after it is dropped.
//!
//! Output, per case:
//!     CASE <n> <seed>
//!     T <H4 trace line>            (hook lines and `h ...` harness notes, in order)
//!     V <kind> <detail>            (harness-level violation: changed value behind a reference,
//!                                   write after free, leak at drop)
//!     S gets=.. held=.. reval=.. panics=.. cancels=.. leak=.. waf=..
//!     END
//! and a final `SUMMARY cases=.. violations=..`.  Exit status 0 / 1 (violations) / 2 (usage).

use std::panic::{AssertUnwindSafe, catch_unwind};
use std::sync::atomic::{AtomicI64, Ordering};
use std::sync::{Arc, RwLock};

use salsa::{Database, Durability, Setter};

#[cfg(not(miri))]
mod qalloc;
#[cfg(not(miri))]
#[global_allocator]
static GLOBAL: qalloc::QAlloc = qalloc::QAlloc;

#[cfg(miri)]
mod qalloc {
    pub fn live() -> i64 {
        0
    }
    pub fn set_quarantine(_on: bool) {}
    pub fn flush() {}
    pub fn write_after_free() -> u64 {
        0
    }
}

// ------------------------------------------------------------------ values

/// The value type of every tracked function and tracked / interned field: an inline part and a
/// heap part, so that both a freed memo and a value dropped in place are visible as poison.
#[derive(Clone, Debug, PartialEq, Eq, Hash, salsa::SalsaValue)]
pub struct P {
    tag: u32,
    chk: u32,
    data: Vec<u32>,
}

impl P {
    fn of(v: u32) -> P {
        P {
            tag: v,
            chk: v ^ 0x5A5A_5A5A,
            data: vec![v; 1 + (v % 3) as usize],
        }
    }
}

// ------------------------------------------------------------------ salsa items

#[salsa::input]
struct Inp {
    a: u32,
    b: u32,
}

#[salsa::tracked]
struct Node<'db> {
    idx: u32,
    #[tracked]
    w: P,
}

#[salsa::interned(revisions = 1)]
struct Sym1<'db> {
    text: P,
}

#[salsa::interned(revisions = 3)]
struct Sym3<'db> {
    text: P,
}

#[salsa::db]
#[derive(Clone)]
struct Db {
    storage: salsa::Storage<Self>,
}

#[salsa::db]
impl salsa::Database for Db {}

const F_LRU: u8 = 0;
const F_PLAIN: u8 = 1;
const F_MAKER: u8 = 2;
const F_NODE: u8 = 3;
const F_SYMS1: u8 = 4;
const F_SYM1: u8 = 5;
const F_SYMS3: u8 = 6;
const F_SYM3: u8 = 7;
const F_CYC: u8 = 8;

#[salsa::tracked(lru = 2)]
fn lruf(db: &dyn salsa::Database, k: Inp) -> P {
    P::of(interp(db, F_LRU, key_of(k)))
}

#[salsa::tracked]
fn plain(db: &dyn salsa::Database, k: Inp) -> P {
    P::of(interp(db, F_PLAIN, key_of(k)))
}

/// Creates `a % 5` tracked structs whose tracked field depends on `b`: a shrinking `a` deletes
/// structs (their memos are freed under `&db`), a growing `a` reuses the slots, a changed `b`
/// overwrites the fields in place under the write lock.
#[salsa::tracked]
fn maker<'db>(db: &'db dyn salsa::Database, k: Inp) -> Vec<Node<'db>> {
    tick(db);
    let n = *k.a(db) % 5;
    let b = *k.b(db);
    (0..n).map(|j| Node::new(db, j, P::of(b.wrapping_add(j)))).collect()
}

#[salsa::tracked]
fn on_node<'db>(db: &'db dyn salsa::Database, n: Node<'db>) -> P {
    tick(db);
    let w = n.w(db).tag;
    P::of(w.wrapping_mul(3).wrapping_add(n.idx(db).wrapping_add(extra(db, F_NODE))))
}

#[salsa::tracked(lru = 1)]
fn on_node_lru<'db>(db: &'db dyn salsa::Database, n: Node<'db>) -> P {
    tick(db);
    P::of(n.w(db).tag ^ 7)
}

/// Interns `a % 4` values `b + j`: fresh values of `b` make old ones stale, and their slots are
/// reused (memos of the old value are freed under `&db`).
#[salsa::tracked]
fn syms1<'db>(db: &'db dyn salsa::Database, k: Inp) -> Vec<Sym1<'db>> {
    tick(db);
    let n = *k.a(db) % 4;
    let b = *k.b(db);
    (0..n).map(|j| Sym1::new(db, P::of(b.wrapping_add(j)))).collect()
}

#[salsa::tracked]
fn on_sym1<'db>(db: &'db dyn salsa::Database, s: Sym1<'db>) -> P {
    tick(db);
    P::of(s.text(db).tag.wrapping_add(100).wrapping_add(extra(db, F_SYM1)))
}

#[salsa::tracked]
fn syms3<'db>(db: &'db dyn salsa::Database, k: Inp) -> Vec<Sym3<'db>> {
    tick(db);
    let n = *k.a(db) % 4;
    let b = *k.b(db);
    (0..n).map(|j| Sym3::new(db, P::of(b.wrapping_add(2 * j)))).collect()
}

#[salsa::tracked]
fn on_sym3<'db>(db: &'db dyn salsa::Database, s: Sym3<'db>) -> P {
    tick(db);
    P::of(s.text(db).tag.wrapping_add(300).wrapping_add(extra(db, F_SYM3)))
}

fn cycle_initial(_db: &dyn salsa::Database, _id: salsa::Id, _k: Inp) -> P {
    P::of(0)
}

fn cycle_fn(_db: &dyn salsa::Database, _cycle: &salsa::Cycle, _last: &P, value: P, _k: Inp) -> P {
    value
}

/// `cyc_a <-> cyc_b`: converges to `a % 4` after that many iterations; every iteration inserts
/// a new memo, so several memos of one key are retired within one revision.
#[salsa::tracked(cycle_fn = cycle_fn, cycle_initial = cycle_initial)]
fn cyc_a(db: &dyn salsa::Database, k: Inp) -> P {
    tick(db);
    P::of(cyc_b(db, k).tag)
}

#[salsa::tracked(cycle_fn = cycle_fn, cycle_initial = cycle_initial)]
fn cyc_b(db: &dyn salsa::Database, k: Inp) -> P {
    tick(db);
    let v = cyc_a(db, k).tag;
    P::of(v.saturating_add(1).min(*k.a(db) % 4))
}

fn key_of(k: Inp) -> usize {
    let cd = case_data();
    cd_index(&cd, k)
}

fn cd_index(cd: &CaseData, k: Inp) -> usize {
    cd.inputs
        .read()
        .unwrap()
        .iter()
        .position(|i| *i == k)
        .unwrap_or(0)
}

// ------------------------------------------------------------------ program as data

#[derive(Clone, Debug)]
enum Atom {
    /// read field `f` of input `i`
    In(usize, u8),
    /// call `lruf` / `plain` on input `i`
    Call(u8, usize),
    /// sum of `on_node` over the first `n` nodes of `maker(i)`
    Nodes(usize, usize),
    /// sum of `on_sym1` / `on_sym3` over the values of `syms1(i)` / `syms3(i)`
    Syms(u8, usize),
    Lit(u32),
}

struct CaseData {
    n_inputs: usize,
    /// body of `lruf(k)` / `plain(k)`; the call graph respects (family, key) order
    bodies: Vec<Vec<Vec<Atom>>>,
    /// extra input read by `on_node` / `on_sym*` (so that their memos are replaced)
    extra_in: usize,
    inputs: RwLock<Vec<Inp>>,
}

static CASE: RwLock<Option<Arc<CaseData>>> = RwLock::new(None);
/// body evaluations until an injected panic / cancellation request (-1 = disarmed)
static PANIC_AT: AtomicI64 = AtomicI64::new(-1);
static CANCEL_AT: AtomicI64 = AtomicI64::new(-1);

fn case_data() -> Arc<CaseData> {
    CASE.read().unwrap().as_ref().unwrap().clone()
}

fn countdown(c: &AtomicI64) -> bool {
    let v = c.load(Ordering::SeqCst);
    if v < 0 {
        return false;
    }
    c.store(v - 1, Ordering::SeqCst);
    v == 0
}

/// Called at the start of every body evaluation.
fn tick(db: &dyn salsa::Database) {
    if countdown(&CANCEL_AT) {
        db.cancellation_token().cancel();
    }
    if countdown(&PANIC_AT) {
        panic!("verif-injected panic");
    }
}

fn extra(db: &dyn salsa::Database, _fam: u8) -> u32 {
    let cd = case_data();
    let i = cd.inputs.read().unwrap()[cd.extra_in % cd.n_inputs];
    *i.b(db) & 1
}

fn interp(db: &dyn salsa::Database, fam: u8, key: usize) -> u32 {
    tick(db);
    let cd = case_data();
    let body = &cd.bodies[fam as usize][key];
    let mut acc: u32 = 0;
    for atom in body {
        acc = acc.wrapping_add(eval(db, &cd, atom));
    }
    acc % 50
}

fn eval(db: &dyn salsa::Database, cd: &CaseData, atom: &Atom) -> u32 {
    let inp = |i: usize| cd.inputs.read().unwrap()[i];
    match atom {
        Atom::Lit(v) => *v,
        Atom::In(i, f) => {
            let k = inp(*i);
            if *f == 0 { *k.a(db) } else { *k.b(db) }
        }
        Atom::Call(fam, i) => {
            let k = inp(*i);
            if *fam == F_LRU {
                lruf(db, k).tag
            } else {
                plain(db, k).tag
            }
        }
        Atom::Nodes(i, n) => {
            let k = inp(*i);
            let nodes = maker(db, k);
            nodes
                .iter()
                .take(*n)
                .map(|nd| on_node(db, *nd).tag)
                .fold(0u32, u32::wrapping_add)
        }
        Atom::Syms(which, i) => {
            let k = inp(*i);
            if *which == 1 {
                syms1(db, k)
                    .iter()
                    .map(|s| on_sym1(db, *s).tag)
                    .fold(0u32, u32::wrapping_add)
            } else {
                syms3(db, k)
                    .iter()
                    .map(|s| on_sym3(db, *s).tag)
                    .fold(0u32, u32::wrapping_add)
            }
        }
    }
}

// ------------------------------------------------------------------ histories

#[derive(Clone, Debug)]
enum MutOp {
    SetA(usize, u32),
    SetB(usize, u32),
    Synth,
    EvictLru,
    LruCap(usize),
    /// no `&mut` operation (first phase)
    Nop,
}

#[derive(Clone, Debug)]
struct Get {
    fam: u8,
    key: usize,
    j: usize,
    panic_at: i64,
    cancel_at: i64,
}

struct History {
    init: Vec<(u32, u32)>,
    phases: Vec<(MutOp, Vec<Get>)>,
}

struct Rng(u64);

impl Rng {
    fn next(&mut self) -> u64 {
        self.0 = self.0.wrapping_add(0x9E37_79B9_7F4A_7C15);
        let mut z = self.0;
        z = (z ^ (z >> 30)).wrapping_mul(0xBF58_476D_1CE4_E5B9);
        z = (z ^ (z >> 27)).wrapping_mul(0x94D0_49BB_1331_11EB);
        z ^ (z >> 31)
    }
    fn below(&mut self, n: u64) -> u64 {
        self.next() % n
    }
    fn chance(&mut self, pct: u64) -> bool {
        self.below(100) < pct
    }
}

fn gen_case(rng: &mut Rng, small: bool) -> (CaseData, History) {
    let n_inputs = 2 + rng.below(2) as usize;
    let mut bodies: Vec<Vec<Vec<Atom>>> = vec![Vec::new(), Vec::new()];
    for fam in [F_LRU, F_PLAIN] {
        for key in 0..n_inputs {
            let n_atoms = 1 + rng.below(3) as usize;
            let mut body = Vec::new();
            for _ in 0..n_atoms {
                let atom = match rng.below(10) {
                    0 => Atom::Lit(rng.below(5) as u32),
                    1..=3 => Atom::In(rng.below(n_inputs as u64) as usize, rng.below(2) as u8),
                    4..=5 => {
                        // a call to a strictly lower (family, key)
                        let lower: Vec<(u8, usize)> = [F_LRU, F_PLAIN]
                            .iter()
                            .flat_map(|f| (0..n_inputs).map(move |k| (*f, k)))
                            .filter(|(f, k)| (*f, *k) < (fam, key))
                            .collect();
                        if lower.is_empty() {
                            Atom::In(rng.below(n_inputs as u64) as usize, 0)
                        } else {
                            let (f, k) = lower[rng.below(lower.len() as u64) as usize];
                            Atom::Call(f, k)
                        }
                    }
                    6..=7 if fam == F_PLAIN => {
                        Atom::Nodes(rng.below(n_inputs as u64) as usize, 1 + rng.below(4) as usize)
                    }
                    8..=9 if fam == F_PLAIN => Atom::Syms(
                        if rng.chance(60) { 1 } else { 3 },
                        rng.below(n_inputs as u64) as usize,
                    ),
                    _ => Atom::In(rng.below(n_inputs as u64) as usize, 1),
                };
                body.push(atom);
            }
            bodies[fam as usize].push(body);
        }
    }
    let cd = CaseData {
        n_inputs,
        bodies,
        extra_in: rng.below(n_inputs as u64) as usize,
        inputs: RwLock::new(Vec::new()),
    };
    let init = (0..n_inputs)
        .map(|_| (rng.below(8) as u32, rng.below(6) as u32))
        .collect();
    let n_phases = if small { 3 + rng.below(3) } else { 5 + rng.below(10) } as usize;
    let mut fresh_b: u32 = 10;
    let mut phases = Vec::new();
    for ph in 0..n_phases {
        let op = if ph == 0 {
            MutOp::Nop
        } else {
            match rng.below(12) {
                0..=3 => MutOp::SetA(rng.below(n_inputs as u64) as usize, rng.below(9) as u32),
                4..=6 => {
                    // mostly fresh values, so that interned values go stale
                    let v = if rng.chance(70) {
                        fresh_b += 1 + rng.below(3) as u32;
                        fresh_b
                    } else {
                        rng.below(6) as u32
                    };
                    MutOp::SetB(rng.below(n_inputs as u64) as usize, v)
                }
                7..=8 => MutOp::Synth,
                9 => MutOp::EvictLru,
                10 => MutOp::LruCap(rng.below(4) as usize),
                _ => MutOp::Synth,
            }
        };
        let n_gets = if small { 1 + rng.below(3) } else { 1 + rng.below(6) } as usize;
        let mut gets = Vec::new();
        for _ in 0..n_gets {
            let fam = match rng.below(16) {
                0..=1 => F_LRU,
                2..=4 => F_PLAIN,
                5 => F_MAKER,
                6..=8 => F_NODE,
                9 => F_SYMS1,
                10..=11 => F_SYM1,
                12 => F_SYMS3,
                13 => F_SYM3,
                _ => F_CYC,
            };
            gets.push(Get {
                fam,
                key: rng.below(n_inputs as u64) as usize,
                j: rng.below(4) as usize,
                panic_at: if rng.chance(8) { rng.below(6) as i64 } else { -1 },
                cancel_at: if rng.chance(5) { rng.below(4) as i64 } else { -1 },
            });
        }
        phases.push((op, gets));
    }
    (cd, History { init, phases })
}

// ------------------------------------------------------------------ kept references

enum Held<'db> {
    Val(&'db P, P, &'static str),
    Num(&'db u32, u32, &'static str),
    Ids(&'db Vec<Node<'db>>, Vec<salsa::Id>),
    Ids1(&'db Vec<Sym1<'db>>, Vec<salsa::Id>),
    Ids3(&'db Vec<Sym3<'db>>, Vec<salsa::Id>),
}

impl Held<'_> {
    /// Re-read through the reference.  The inline part is compared first: if it is damaged the
    /// heap pointer is not followed (it would be poison).
    fn still_valid(&self) -> Result<(), String> {
        use salsa::plumbing::AsId;
        match self {
            Held::Val(r, copy, what) => {
                let (tag, chk) = (r.tag, r.chk);
                if tag != copy.tag || chk != copy.chk {
                    return Err(format!(
                        "{what}: inline part changed: tag {:#x} chk {:#x}, was {:#x} {:#x}",
                        tag, chk, copy.tag, copy.chk
                    ));
                }
                if r.data.len() != copy.data.len() {
                    return Err(format!(
                        "{what}: heap part length changed: {:#x}, was {}",
                        r.data.len(),
                        copy.data.len()
                    ));
                }
                if r.data != copy.data {
                    return Err(format!(
                        "{what}: heap part changed: {:x?}, was {:x?}",
                        r.data, copy.data
                    ));
                }
                Ok(())
            }
            Held::Num(r, copy, what) => {
                if **r != *copy {
                    return Err(format!("{what}: changed: {:#x}, was {:#x}", **r, copy));
                }
                Ok(())
            }
            Held::Ids(r, copy) => {
                if r.len() != copy.len() || r.iter().zip(copy).any(|(a, b)| a.as_id() != *b) {
                    return Err(String::from("maker result changed"));
                }
                Ok(())
            }
            Held::Ids1(r, copy) => {
                if r.len() != copy.len() || r.iter().zip(copy).any(|(a, b)| a.as_id() != *b) {
                    return Err(String::from("syms1 result changed"));
                }
                Ok(())
            }
            Held::Ids3(r, copy) => {
                if r.len() != copy.len() || r.iter().zip(copy).any(|(a, b)| a.as_id() != *b) {
                    return Err(String::from("syms3 result changed"));
                }
                Ok(())
            }
        }
    }
}

fn val<'db>(r: &'db P, what: &'static str) -> Held<'db> {
    Held::Val(r, r.clone(), what)
}

fn do_get<'db>(db: &'db Db, cd: &CaseData, g: &Get) -> Vec<Held<'db>> {
    use salsa::plumbing::AsId;
    let k = cd.inputs.read().unwrap()[g.key];
    let mut out = Vec::new();
    match g.fam {
        F_LRU => out.push(val(lruf(db, k), "lruf")),
        F_PLAIN => out.push(val(plain(db, k), "plain")),
        F_CYC => {
            out.push(val(cyc_a(db, k), "cyc_a"));
            out.push(val(cyc_b(db, k), "cyc_b"));
        }
        F_MAKER => {
            let v = maker(db, k);
            out.push(Held::Ids(v, v.iter().map(|n| n.as_id()).collect()));
            out.push(Held::Num(k.a(db), *k.a(db), "input field"));
        }
        F_NODE => {
            let v = maker(db, k);
            out.push(Held::Ids(v, v.iter().map(|n| n.as_id()).collect()));
            if let Some(n) = v.get(g.j) {
                out.push(val(n.w(db), "tracked field"));
                out.push(Held::Num(n.idx(db), *n.idx(db), "tracked id field"));
                out.push(val(on_node(db, *n), "on_node"));
                if g.j % 2 == 0 {
                    out.push(val(on_node_lru(db, *n), "on_node_lru"));
                }
            }
        }
        F_SYMS1 => {
            let v = syms1(db, k);
            out.push(Held::Ids1(v, v.iter().map(|n| n.as_id()).collect()));
        }
        F_SYM1 => {
            let v = syms1(db, k);
            out.push(Held::Ids1(v, v.iter().map(|n| n.as_id()).collect()));
            if let Some(s) = v.get(g.j) {
                out.push(val(s.text(db), "interned field"));
                out.push(val(on_sym1(db, *s), "on_sym1"));
            }
            // interning outside a query: pinned values
            if g.j == 3 {
                let s = Sym1::new(db, P::of(1000 + g.key as u32));
                out.push(val(s.text(db), "interned field (outside a query)"));
                out.push(val(on_sym1(db, s), "on_sym1 (outside a query)"));
            }
        }
        F_SYMS3 => {
            let v = syms3(db, k);
            out.push(Held::Ids3(v, v.iter().map(|n| n.as_id()).collect()));
        }
        _ => {
            let v = syms3(db, k);
            if let Some(s) = v.get(g.j) {
                out.push(val(s.text(db), "interned field"));
                out.push(val(on_sym3(db, *s), "on_sym3"));
            }
        }
    }
    out
}

#[derive(Default)]
struct Stats {
    gets: u64,
    held: u64,
    reval: u64,
    panics: u64,
    cancels: u64,
    violations: Vec<String>,
}

fn read_phase(db: &Db, cd: &CaseData, gets: &[Get], st: &mut Stats) {
    let mut held: Vec<Held<'_>> = Vec::new();
    for g in gets {
        st.gets += 1;
        PANIC_AT.store(g.panic_at, Ordering::SeqCst);
        CANCEL_AT.store(g.cancel_at, Ordering::SeqCst);
        salsa::verif_life::note(&format!("get {} {} {}", g.fam, g.key, g.j));
        match catch_unwind(AssertUnwindSafe(|| do_get(db, cd, g))) {
            Ok(hs) => {
                salsa::verif_life::note(&format!("keep {}", hs.len()));
                held.extend(hs)
            }
            Err(payload) => {
                if payload.downcast_ref::<salsa::Cancelled>().is_some() {
                    st.cancels += 1;
                    salsa::verif_life::note("cancelled");
                } else {
                    st.panics += 1;
                    salsa::verif_life::note("panicked");
                }
            }
        }
        PANIC_AT.store(-1, Ordering::SeqCst);
        CANCEL_AT.store(-1, Ordering::SeqCst);
        // a pending local cancellation request would hit the next get
    }
    // revalidation: just before the database is next borrowed mutably
    let mut bad = 0;
    for h in &held {
        st.reval += 1;
        if let Err(e) = h.still_valid() {
            bad += 1;
            st.violations.push(format!("changed-value-behind-reference {e}"));
        }
    }
    st.held += held.len() as u64;
    salsa::verif_life::note(&format!("reval {} {}", held.len(), bad));
}

fn apply_mut(db: &mut Db, cd: &CaseData, op: &MutOp) {
    let inp = |i: usize| cd.inputs.read().unwrap()[i];
    match op {
        MutOp::SetA(i, v) => {
            let k = inp(*i);
            k.set_a(db).to(*v);
        }
        MutOp::SetB(i, v) => {
            let k = inp(*i);
            k.set_b(db).to(*v);
        }
        MutOp::Synth => db.synthetic_write(Durability::LOW),
        MutOp::EvictLru => db.trigger_lru_eviction(),
        MutOp::LruCap(n) => lruf::set_lru_capacity(db, *n),
        MutOp::Nop => {}
    }
}

fn run_history(cd: &Arc<CaseData>, h: &History, st: &mut Stats) {
    *CASE.write().unwrap() = Some(cd.clone());
    let mut db = Db {
        storage: salsa::Storage::new(None),
    };
    {
        let mut inputs = cd.inputs.write().unwrap();
        inputs.clear();
        for (a, b) in &h.init {
            inputs.push(Inp::new(&db, *a, *b));
        }
    }
    for (op, gets) in &h.phases {
        salsa::verif_life::note(&format!("mut {op:?}"));
        apply_mut(&mut db, cd, op);
        read_phase(&db, cd, gets, st);
    }
    salsa::verif_life::note("drop");
    drop(db);
    salsa::verif_life::note("dropped");
    cd.inputs.write().unwrap().clear();
    *CASE.write().unwrap() = None;
    drain_other_hooks();
}

/// Hooks H2 and H5 append to process-wide logs unconditionally; empty them so that they neither
/// grow without bound nor count as leaked allocations.
fn drain_other_hooks() {
    drop(salsa::verif_take_proto_trace());
    drop(salsa::verif_intern::verif_take_intern_trace());
}

fn main() {
    let args: Vec<String> = std::env::args().collect();
    let mut seed: u64 = 1;
    let mut cases: u64 = 10;
    let mut first: u64 = 0;
    let mut small = false;
    let mut count = true;
    let mut i = 1;
    while i < args.len() {
        match args[i].as_str() {
            "--seed" => {
                seed = args[i + 1].parse().expect("seed");
                i += 2
            }
            "--cases" => {
                cases = args[i + 1].parse().expect("cases");
                i += 2
            }
            "--first" => {
                first = args[i + 1].parse().expect("first");
                i += 2
            }
            "--small" => {
                small = true;
                i += 1
            }
            "--no-count" => {
                count = false;
                i += 1
            }
            _ => {
                eprintln!("usage: harness-life --seed S --cases N [--first K] [--small] [--no-count]");
                std::process::exit(2);
            }
        }
    }
    std::panic::set_hook(Box::new(|_| {}));
    let mut total_violations = 0u64;
    // warm-up: one throw-away case with a panic, so that lazily initialised process-wide state
    // (panic machinery, thread locals, salsa's global registries) exists before anything is
    // counted
    {
        let mut rng = Rng(0xC0FFEE);
        let (cd, mut h) = gen_case(&mut rng, true);
        if let Some((_, gets)) = h.phases.first_mut() {
            if let Some(g) = gets.first_mut() {
                g.panic_at = 0;
            }
        }
        let cd = Arc::new(cd);
        let mut st = Stats::default();
        run_history(&cd, &h, &mut st);
        run_history(&cd, &h, &mut st);
    }
    for n in first..first + cases {
        let case_seed = Rng(Rng(seed).next() ^ n.wrapping_mul(0xD6E8_FEB8_6659_FD93)).next();
        let mut rng = Rng(case_seed);
        let (cd, h) = gen_case(&mut rng, small);
        let cd = Arc::new(cd);
        println!("CASE {n} {case_seed}");
        // ---- pass 1: recorded, poisoned, quarantined
        let mut st = Stats::default();
        let waf0 = qalloc::write_after_free();
        qalloc::set_quarantine(true);
        salsa::verif_life::enable(true);
        run_history(&cd, &h, &mut st);
        salsa::verif_life::enable(false);
        let trace = salsa::verif_take_life_trace();
        salsa::verif_life::reset();
        qalloc::set_quarantine(false);
        qalloc::flush();
        let waf = qalloc::write_after_free() - waf0;
        for l in &trace {
            println!("T {l}");
        }
        drop(trace);
        if waf > 0 {
            st.violations
                .push(format!("write-after-free {waf} quarantined block(s) were written to"));
        }
        // ---- pass 2: plain, counted
        let mut leak = 0i64;
        if count && !cfg!(miri) {
            let mut st2 = Stats::default();
            let before = qalloc::live();
            run_history(&cd, &h, &mut st2);
            let after = qalloc::live();
            // `st2` owns at most the violation strings of pass 2
            leak = after - before - st2.violations.len() as i64 - (st2.violations.capacity() > 0) as i64;
            if leak != 0 {
                st.violations.push(format!(
                    "leak-at-drop live allocations before the database was created {before}, after it was dropped {after}"
                ));
            }
            for v in st2.violations {
                st.violations.push(format!("(pass 2) {v}"));
            }
        }
        for v in &st.violations {
            println!("V {v}");
        }
        println!(
            "S gets={} held={} reval={} panics={} cancels={} leak={} waf={}",
            st.gets, st.held, st.reval, st.panics, st.cancels, leak, waf
        );
        println!("END");
        total_violations += st.violations.len() as u64;
    }
    println!("SUMMARY cases={cases} violations={total_violations}");
    std::process::exit(if total_violations > 0 { 1 } else { 0 });
}

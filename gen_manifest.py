#!/usr/bin/env python3
"""Regenerates MANIFEST.json from checks/registry.json (single source of truth for claims)."""
import json, os, subprocess
ROOT = os.path.dirname(os.path.abspath(__file__))
reg = json.load(open(os.path.join(ROOT, "checks", "registry.json")))
props = [json.loads(l) for l in open(os.path.join(ROOT, "properties.jsonl"))]
hook_commits = subprocess.run(["git", "-C", "/repo", "log", "--format=%H %s", "ca4df55..HEAD"],
                              capture_output=True, text=True).stdout.strip().split("\n")
hook_commits = [l.split()[0] for l in hook_commits if l and "verif hook" in l]
checks = []
claimed = set()
for pid, c in reg["checks"].items():
    claimed.add(pid)
    checks.append({
        "property_id": pid,
        "quick_cmd": f"./vp check {pid} --tier quick",
        "thorough_cmd": f"./vp check {pid} --tier thorough",
        "evidence_file": f"evidence/{pid}.json",
        "replay_cmd_template": "./vp replay {path}",
        "engine": c.get("engine", "seq"),
        "level_claimed": {"category": "proof", "text": c["text"], "design_ref": c.get("design_ref", "DESIGN.md §7 " + pid)},
        "level_note": c["note"],
        "technique": c["technique"],
    })
na = []
for p in props:
    if p["id"] not in claimed:
        na.append({"property_id": p["id"], "reason": reg["not_claimed"].get(p["id"], "not built yet: no registered check (see DESIGN.md §9 build order)")})
m = {
    "version": 1,
    "setup_cmd": "./vp setup",
    "hooks": {
        "guard": "salsa_rs_salsa_verif",
        "enable": "RUSTFLAGS=\"--cfg salsa_rs_salsa_verif\" (set by vplib.common.cargo_build for every harness build)",
        "baseline_off_cmd": "cd /repo && cargo nextest run --workspace --no-fail-fast --test-threads 8 --offline",
        "source_commits": hook_commits,
        "add_only": True,
    },
    "engines": reg["engines"],
    "checks": checks,
    "notes": reg.get("notes", ""),
    "not_applicable": na,
}
json.dump(m, open(os.path.join(ROOT, "MANIFEST.json"), "w"), indent=1)
print("claimed:", sorted(claimed), "not claimed:", len(na))

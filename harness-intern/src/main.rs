//! harness-intern: drives the real interned ingredient of /repo from a textual case and
//! prints, per operation, what the API returned (handle ids as index+generation, field
//! read-backs), the salsa events about interned values, and the H5 linearisation
//! records (`salsa::verif_intern::verif_take_intern_trace`).  It never interprets
//! results.
//!
//! Case (stdin), one operation per line, `#` comments:
//!   inputs N                 create N inputs (field a = 0, durability LOW); first line
//!   intern T V               T::new(&db, V) outside any query      (T in 1 2 3 M D)
//!   get after  T I V         tracked fn: read input I, then intern V
//!   get before T I V         tracked fn: intern V, then read input I   (stamp NEVER)
//!   get dyn    T I           tracked fn: intern the value of input I
//!   get use    T I V         tracked fn: after(T,I,V), then a fn keyed by the handle
//!   set I V [L|M|H]          input setter (durability default LOW)
//!   synth L|M|H              db.synthetic_write
//!   newrev                   db.synthetic_write(LOW)
//!   par T x,x,..;x,x,..;..   one OS thread per `;`-separated list (2-4), each with its own
//!                            database handle, all released by a barrier; item `V` interns V
//!                            directly, item `aV` runs the tracked fn after(T, input 0, V);
//!                            prints `PRET thread value idx gen read`
//!
//! Output:
//!   NSHARDS n
//!   OP k <text>
//!   EV <kind> ing idx gen rev        salsa events (intern|reuse|validate|discard|exec|valid)
//!   REC <H5 record> [val=V]          in lock order
//!   RET idx gen read                 handle and field read-back (u32::MAX read = none)
//!   REV r                            current revision after the operation
//!
//! `--shardmap K` prints `SHARD T v shard hash` for v in 0..K (scratch database) and exits.
use std::io::BufRead;
use std::sync::Mutex;

use salsa::plumbing::AsId;
use salsa::{Database, Durability, Setter};

static LOG: Mutex<Vec<String>> = Mutex::new(Vec::new());

fn log(line: String) {
    LOG.lock().unwrap().push(line);
}

/// Drain the hook trace into the log (atomically: the log lock is held while the trace
/// is taken, so chunks drained by different threads stay in trace order).  The last
/// `op=intern` record of the calling thread (if any) is the one produced by the
/// interning that just returned there; it is annotated with the value.
fn drain(ty_val: Option<(&str, u32)>) {
    let mut log = LOG.lock().unwrap();
    let recs = salsa::verif_intern::verif_take_intern_trace();
    let me = format!(" t={:?} ", std::thread::current().id());
    let mine = recs
        .iter()
        .rposition(|r| r.starts_with("op=intern") && r.contains(&me));
    for (k, r) in recs.into_iter().enumerate() {
        match ty_val {
            Some((ty, v)) if Some(k) == mine => log.push(format!("REC {r} ty={ty} val={v}")),
            _ => log.push(format!("REC {r}")),
        }
    }
}

#[salsa::input]
struct Inp {
    #[returns(copy)]
    a: u32,
}

#[salsa::interned(revisions = 1)]
struct I1<'db> {
    #[returns(copy)]
    v: u32,
}
#[salsa::interned(revisions = 2)]
struct I2<'db> {
    #[returns(copy)]
    v: u32,
}
#[salsa::interned(revisions = 3)]
struct I3<'db> {
    #[returns(copy)]
    v: u32,
}
#[salsa::interned(revisions = usize::MAX)]
struct IM<'db> {
    #[returns(copy)]
    v: u32,
}
#[salsa::interned]
struct ID<'db> {
    #[returns(copy)]
    v: u32,
}

// One family of tracked functions per interned type (written out: `salsa::tracked`
// does not compose with `macro_rules!` hygiene).
#[salsa::tracked(returns(copy))]
fn after_1<'db>(db: &'db dyn Database, inp: Inp, val: u32) -> I1<'db> {
    let _ = inp.a(db);
    let h = I1::new(db, val);
    drain(Some(("1", val)));
    h
}
#[salsa::tracked(returns(copy))]
fn before_1<'db>(db: &'db dyn Database, inp: Inp, val: u32) -> I1<'db> {
    let h = I1::new(db, val);
    drain(Some(("1", val)));
    let _ = inp.a(db);
    h
}
#[salsa::tracked(returns(copy))]
fn dyn_1<'db>(db: &'db dyn Database, inp: Inp) -> I1<'db> {
    let val = inp.a(db);
    let h = I1::new(db, val);
    drain(Some(("1", val)));
    h
}
#[salsa::tracked(returns(copy))]
fn keyed_1<'db>(db: &'db dyn Database, h: I1<'db>) -> u32 {
    h.v(db)
}
#[salsa::tracked(returns(copy))]
fn use_1<'db>(db: &'db dyn Database, inp: Inp, val: u32) -> I1<'db> {
    let h = after_1(db, inp, val);
    let _ = keyed_1(db, h);
    h
}

#[salsa::tracked(returns(copy))]
fn after_2<'db>(db: &'db dyn Database, inp: Inp, val: u32) -> I2<'db> {
    let _ = inp.a(db);
    let h = I2::new(db, val);
    drain(Some(("2", val)));
    h
}
#[salsa::tracked(returns(copy))]
fn before_2<'db>(db: &'db dyn Database, inp: Inp, val: u32) -> I2<'db> {
    let h = I2::new(db, val);
    drain(Some(("2", val)));
    let _ = inp.a(db);
    h
}
#[salsa::tracked(returns(copy))]
fn dyn_2<'db>(db: &'db dyn Database, inp: Inp) -> I2<'db> {
    let val = inp.a(db);
    let h = I2::new(db, val);
    drain(Some(("2", val)));
    h
}
#[salsa::tracked(returns(copy))]
fn keyed_2<'db>(db: &'db dyn Database, h: I2<'db>) -> u32 {
    h.v(db)
}
#[salsa::tracked(returns(copy))]
fn use_2<'db>(db: &'db dyn Database, inp: Inp, val: u32) -> I2<'db> {
    let h = after_2(db, inp, val);
    let _ = keyed_2(db, h);
    h
}

#[salsa::tracked(returns(copy))]
fn after_3<'db>(db: &'db dyn Database, inp: Inp, val: u32) -> I3<'db> {
    let _ = inp.a(db);
    let h = I3::new(db, val);
    drain(Some(("3", val)));
    h
}
#[salsa::tracked(returns(copy))]
fn before_3<'db>(db: &'db dyn Database, inp: Inp, val: u32) -> I3<'db> {
    let h = I3::new(db, val);
    drain(Some(("3", val)));
    let _ = inp.a(db);
    h
}
#[salsa::tracked(returns(copy))]
fn dyn_3<'db>(db: &'db dyn Database, inp: Inp) -> I3<'db> {
    let val = inp.a(db);
    let h = I3::new(db, val);
    drain(Some(("3", val)));
    h
}
#[salsa::tracked(returns(copy))]
fn keyed_3<'db>(db: &'db dyn Database, h: I3<'db>) -> u32 {
    h.v(db)
}
#[salsa::tracked(returns(copy))]
fn use_3<'db>(db: &'db dyn Database, inp: Inp, val: u32) -> I3<'db> {
    let h = after_3(db, inp, val);
    let _ = keyed_3(db, h);
    h
}

#[salsa::tracked(returns(copy))]
fn after_m<'db>(db: &'db dyn Database, inp: Inp, val: u32) -> IM<'db> {
    let _ = inp.a(db);
    let h = IM::new(db, val);
    drain(Some(("M", val)));
    h
}
#[salsa::tracked(returns(copy))]
fn before_m<'db>(db: &'db dyn Database, inp: Inp, val: u32) -> IM<'db> {
    let h = IM::new(db, val);
    drain(Some(("M", val)));
    let _ = inp.a(db);
    h
}
#[salsa::tracked(returns(copy))]
fn dyn_m<'db>(db: &'db dyn Database, inp: Inp) -> IM<'db> {
    let val = inp.a(db);
    let h = IM::new(db, val);
    drain(Some(("M", val)));
    h
}
#[salsa::tracked(returns(copy))]
fn keyed_m<'db>(db: &'db dyn Database, h: IM<'db>) -> u32 {
    h.v(db)
}
#[salsa::tracked(returns(copy))]
fn use_m<'db>(db: &'db dyn Database, inp: Inp, val: u32) -> IM<'db> {
    let h = after_m(db, inp, val);
    let _ = keyed_m(db, h);
    h
}

#[salsa::tracked(returns(copy))]
fn after_d<'db>(db: &'db dyn Database, inp: Inp, val: u32) -> ID<'db> {
    let _ = inp.a(db);
    let h = ID::new(db, val);
    drain(Some(("D", val)));
    h
}
#[salsa::tracked(returns(copy))]
fn before_d<'db>(db: &'db dyn Database, inp: Inp, val: u32) -> ID<'db> {
    let h = ID::new(db, val);
    drain(Some(("D", val)));
    let _ = inp.a(db);
    h
}
#[salsa::tracked(returns(copy))]
fn dyn_d<'db>(db: &'db dyn Database, inp: Inp) -> ID<'db> {
    let val = inp.a(db);
    let h = ID::new(db, val);
    drain(Some(("D", val)));
    h
}
#[salsa::tracked(returns(copy))]
fn keyed_d<'db>(db: &'db dyn Database, h: ID<'db>) -> u32 {
    h.v(db)
}
#[salsa::tracked(returns(copy))]
fn use_d<'db>(db: &'db dyn Database, inp: Inp, val: u32) -> ID<'db> {
    let h = after_d(db, inp, val);
    let _ = keyed_d(db, h);
    h
}

#[salsa::db]
#[derive(Clone)]
struct Db {
    storage: salsa::Storage<Self>,
}

#[salsa::db]
impl salsa::Database for Db {}

fn rev_num(r: salsa::Revision) -> String {
    format!("{r:?}").trim_start_matches('R').to_string()
}

fn new_db() -> Db {
    let cb = move |e: salsa::Event| {
        use salsa::EventKind::*;
        let line = match e.kind {
            DidInternValue { key, revision } => Some(("intern", key, rev_num(revision))),
            DidReuseInternedValue { key, revision } => Some(("reuse", key, rev_num(revision))),
            DidValidateInternedValue { key, revision } => {
                Some(("validate", key, rev_num(revision)))
            }
            DidDiscard { key } => Some(("discard", key, "-".to_string())),
            WillExecute { database_key } => Some(("exec", database_key, "-".to_string())),
            DidValidateMemoizedValue { database_key } => {
                Some(("valid", database_key, "-".to_string()))
            }
            _ => None,
        };
        if let Some((kind, key, rev)) = line {
            let (ing, idx, generation) = salsa::verif::key_parts(key);
            log(format!("EV {kind} {ing} {idx} {generation} {rev}"));
        }
    };
    Db {
        storage: salsa::Storage::new(Some(Box::new(cb))),
    }
}

fn dur(s: Option<&str>) -> Durability {
    match s {
        Some("M") => Durability::MEDIUM,
        Some("H") => Durability::HIGH,
        _ => Durability::LOW,
    }
}

fn ret(id: salsa::Id, read: u32) {
    log(format!("RET {} {} {}", id.index(), id.generation(), read));
}

macro_rules! dispatch {
    ($db:expr, $ty:expr, $f1:ident, $f2:ident, $f3:ident, $fm:ident, $fd:ident, ($($arg:expr),*)) => {
        match $ty {
            "1" => { let h = $f1($db, $($arg),*); ret(h.as_id(), h.v($db)); }
            "2" => { let h = $f2($db, $($arg),*); ret(h.as_id(), h.v($db)); }
            "3" => { let h = $f3($db, $($arg),*); ret(h.as_id(), h.v($db)); }
            "M" => { let h = $fm($db, $($arg),*); ret(h.as_id(), h.v($db)); }
            _ => { let h = $fd($db, $($arg),*); ret(h.as_id(), h.v($db)); }
        }
    };
}

fn intern_direct(db: &Db, ty: &str, v: u32) {
    macro_rules! one {
        ($I:ident, $name:literal) => {{
            let h = $I::new(db, v);
            drain(Some(($name, v)));
            ret(h.as_id(), h.v(db));
        }};
    }
    match ty {
        "1" => one!(I1, "1"),
        "2" => one!(I2, "2"),
        "3" => one!(I3, "3"),
        "M" => one!(IM, "M"),
        _ => one!(ID, "D"),
    }
}

/// Intern without touching the log (used from worker threads).
fn intern_quiet(db: &Db, ty: &str, v: u32) -> (u32, u32, u32) {
    macro_rules! one {
        ($I:ident) => {{
            let h = $I::new(db, v);
            (h.as_id().index(), h.as_id().generation(), h.v(db))
        }};
    }
    match ty {
        "1" => one!(I1),
        "2" => one!(I2),
        "3" => one!(I3),
        "M" => one!(IM),
        _ => one!(ID),
    }
}

fn after_quiet(db: &Db, ty: &str, inp: Inp, v: u32) -> (u32, u32, u32) {
    macro_rules! one {
        ($f:ident) => {{
            let h = $f(db, inp, v);
            (h.as_id().index(), h.as_id().generation(), h.v(db))
        }};
    }
    match ty {
        "1" => one!(after_1),
        "2" => one!(after_2),
        "3" => one!(after_3),
        "M" => one!(after_m),
        _ => one!(after_d),
    }
}

fn shardmap(k: u32) {
    let db = new_db();
    println!("NSHARDS {}", salsa::verif_intern::verif_shard_count());
    for ty in ["1", "2", "3", "M", "D"] {
        for v in 0..k {
            intern_direct(&db, ty, v);
            let lines: Vec<String> = std::mem::take(&mut *LOG.lock().unwrap());
            for l in lines {
                if let Some(rest) = l.strip_prefix("REC ") {
                    let get = |key: &str| {
                        rest.split(' ')
                            .find_map(|kv| kv.strip_prefix(key))
                            .unwrap_or("?")
                            .to_string()
                    };
                    let hash: u64 = get("hash=").parse().unwrap_or(0);
                    assert_eq!(
                        get("shard="),
                        salsa::verif_intern::verif_shard_of_hash(hash).to_string()
                    );
                    println!("SHARD {ty} {v} {} {}", get("shard="), get("hash="));
                }
            }
        }
    }
}

fn main() {
    let args: Vec<String> = std::env::args().collect();
    if args.len() >= 3 && args[1] == "--shardmap" {
        shardmap(args[2].parse().unwrap());
        return;
    }
    let mut db = new_db();
    let mut inputs: Vec<Inp> = Vec::new();
    println!("NSHARDS {}", salsa::verif_intern::verif_shard_count());
    let stdin = std::io::stdin();
    let mut k = 0usize;
    for line in stdin.lock().lines() {
        let line = line.unwrap();
        let line = line.split('#').next().unwrap().trim().to_string();
        if line.is_empty() {
            continue;
        }
        let w: Vec<&str> = line.split_whitespace().collect();
        println!("OP {k} {line}");
        k += 1;
        match w[0] {
            "inputs" => {
                let n: usize = w[1].parse().unwrap();
                for _ in 0..n {
                    inputs.push(Inp::new(&db, 0));
                }
            }
            "intern" => intern_direct(&db, w[1], w[2].parse().unwrap()),
            "get" => {
                let ty = w[2];
                let inp = inputs[w[3].parse::<usize>().unwrap()];
                let dbr: &Db = &db;
                match w[1] {
                    "after" => {
                        let v: u32 = w[4].parse().unwrap();
                        dispatch!(dbr, ty, after_1, after_2, after_3, after_m, after_d, (inp, v))
                    }
                    "before" => {
                        let v: u32 = w[4].parse().unwrap();
                        dispatch!(dbr, ty, before_1, before_2, before_3, before_m, before_d, (inp, v))
                    }
                    "use" => {
                        let v: u32 = w[4].parse().unwrap();
                        dispatch!(dbr, ty, use_1, use_2, use_3, use_m, use_d, (inp, v))
                    }
                    _ => dispatch!(dbr, ty, dyn_1, dyn_2, dyn_3, dyn_m, dyn_d, (inp)),
                }
            }
            "set" => {
                let inp = inputs[w[1].parse::<usize>().unwrap()];
                let v: u32 = w[2].parse().unwrap();
                inp.set_a(&mut db).with_durability(dur(w.get(3).copied())).to(v);
            }
            "synth" => db.synthetic_write(dur(w.get(1).copied())),
            "newrev" => db.synthetic_write(Durability::LOW),
            "par" => {
                let ty = w[1].to_string();
                let lists: Vec<Vec<(bool, u32)>> = w[2]
                    .split(';')
                    .map(|l| {
                        l.split(',')
                            .map(|x| match x.strip_prefix('a') {
                                Some(v) => (true, v.parse().unwrap()),
                                None => (false, x.parse().unwrap()),
                            })
                            .collect()
                    })
                    .collect();
                let inp0 = inputs[0];
                let barrier = std::sync::Arc::new(std::sync::Barrier::new(lists.len()));
                let workers: Vec<_> = lists
                    .into_iter()
                    .enumerate()
                    .map(|(ti, list)| {
                        let dbc = db.clone();
                        let ty = ty.clone();
                        let barrier = barrier.clone();
                        std::thread::spawn(move || {
                            barrier.wait();
                            let mut out = Vec::new();
                            for (query, v) in list {
                                let (idx, generation, read) = if query {
                                    after_quiet(&dbc, &ty, inp0, v)
                                } else {
                                    intern_quiet(&dbc, &ty, v)
                                };
                                out.push(format!("PRET {ti} {v} {idx} {generation} {read}"));
                            }
                            out
                        })
                    })
                    .collect();
                for worker in workers {
                    for l in worker.join().unwrap() {
                        log(l);
                    }
                }
            }
            other => panic!("unknown op {other}"),
        }
        drain(None);
        let lines: Vec<String> = std::mem::take(&mut *LOG.lock().unwrap());
        for l in lines {
            println!("{l}");
        }
        println!("REV {}", rev_num(salsa::plumbing::current_revision(&db)));
    }
}

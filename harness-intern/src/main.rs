//! harness-intern: drives the real interned ingredient of /repo from a textual case and
//! prints, per operation, what the API returned (handle ids as index+generation, field
//! read-backs), the salsa events about interned values, and the H5/H5b linearisation
//! records (`salsa::verif_intern::verif_take_intern_trace`).  It never interprets
//! results.
//!
//! Case (stdin), one operation per line, `#` comments:
//!   inputs N                 create N inputs (field a = 0, durability LOW); first line
//!   intern T V               T::new(&db, V) outside any query      (T in 1 2 3 M D)
//!   get after  T I V         tracked fn: read input I, then intern V
//!   get before T I V         tracked fn: intern V, then read input I   (stamp NEVER)
//!   get dyn    T I           tracked fn: intern the value of input I
//!   get use    T I V         tracked fn: after(T,I,V), then a fn keyed by the handle
//!   get dynuse T I           tracked fn: h = dyn(T,I); k = keyed(h); d = h.v; returns (h,k,d)
//!   get dynread T I          tracked fn: h = dyn(T,I); d = h.v; returns (h,d,d)
//!   set I V [L|M|H]          input setter (durability default LOW)
//!   synth L|M|H              db.synthetic_write
//!   newrev                   db.synthetic_write(LOW)
//!   evfault KIND N           arm the event callback: it panics on the N-th next event of
//!                            KIND (discard reuse intern validate exec valid any), one shot;
//!                            `evfault off` disarms
//!   userfault hash|eq N      arm the user `Hash` / `PartialEq` impl of the interned field
//!                            type: the N-th next call panics, one shot; `userfault off`
//!   par T x,x,..;x,x,..;..   one OS thread per `;`-separated list (2-4), each with its own
//!                            database handle, all released by a barrier; item `V` interns V
//!                            directly, item `aV` runs the tracked fn after(T, input 0, V);
//!                            prints `PRET thread value idx gen read`
//!
//! Output:
//!   NSHARDS n
//!   OP k <text>
//!   EV <kind> ing idx gen rev        salsa events (intern|reuse|validate|discard|exec|valid)
//!   FAULT ev <kind> | hash | eq      the armed fault fired (the line before it is the event)
//!   REC <H5 record> [val=V]          in lock order
//!   RET idx gen read                 handle and field read-back (u32::MAX read = none)
//!   RET idx gen read keyed direct    dynuse / dynread: also what the query body saw
//!   RET panic injected|other <msg>   the operation unwound (every `get`/`intern` runs under
//!                                    catch_unwind); the case continues with the next op
//!   REV r                            current revision after the operation
//!
//! `--shardmap K` prints `SHARD T v shard hash` for v in 0..K (scratch database) and exits.
use std::io::BufRead;
use std::panic::{AssertUnwindSafe, catch_unwind};
use std::sync::Mutex;
use std::sync::atomic::{AtomicI64, AtomicU8, Ordering};

use salsa::plumbing::AsId;
use salsa::{Database, Durability, Setter};

static LOG: Mutex<Vec<String>> = Mutex::new(Vec::new());

fn log(line: String) {
    LOG.lock().unwrap_or_else(|p| p.into_inner()).push(line);
}

const INJECTED: &str = "verif-injected panic";

/// Event-callback fault: kind code (0 = any) and countdown (<= 0 disarmed, n = panic at the
/// n-th next matching event).
static EV_KIND: AtomicU8 = AtomicU8::new(0);
static EV_LEFT: AtomicI64 = AtomicI64::new(0);
/// User-code faults of the interned field type: countdowns for `Hash::hash` and `PartialEq::eq`.
static HASH_LEFT: AtomicI64 = AtomicI64::new(0);
static EQ_LEFT: AtomicI64 = AtomicI64::new(0);

const KINDS: [&str; 7] = ["any", "intern", "reuse", "validate", "discard", "exec", "valid"];

fn tick(counter: &AtomicI64) -> bool {
    let n = counter.load(Ordering::SeqCst);
    if n <= 0 {
        return false;
    }
    counter.store(n - 1, Ordering::SeqCst);
    n == 1
}

/// The field type of every interned struct: a `u32` whose `Hash` and `PartialEq` are user
/// code that can be armed to panic.  Unarmed, it hashes exactly like the `u32` it wraps.
#[derive(Clone, Copy, Debug, Eq, salsa::SalsaValue)]
struct V(u32);

impl std::hash::Hash for V {
    fn hash<H: std::hash::Hasher>(&self, state: &mut H) {
        if tick(&HASH_LEFT) {
            log("FAULT hash".to_string());
            panic!("{INJECTED}");
        }
        self.0.hash(state);
    }
}

impl PartialEq for V {
    fn eq(&self, other: &Self) -> bool {
        if tick(&EQ_LEFT) {
            log("FAULT eq".to_string());
            panic!("{INJECTED}");
        }
        self.0 == other.0
    }
}

/// Drain the hook trace into the log (atomically: the log lock is held while the trace
/// is taken, so chunks drained by different threads stay in trace order).  The last
/// `op=intern` record of the calling thread (if any) is the one produced by the
/// interning that just returned there; it is annotated with the value.  Records of an
/// interning that unwound carry no annotation (the reader recovers the value from `hash=`
/// through the `--shardmap` table).
fn drain(ty_val: Option<(&str, u32)>) {
    let mut log = LOG.lock().unwrap_or_else(|p| p.into_inner());
    let recs = salsa::verif_intern::verif_take_intern_trace();
    let me = format!(" t={:?} ", std::thread::current().id());
    let mine = recs
        .iter()
        .rposition(|r| r.starts_with("op=intern") && r.contains(&me));
    for (k, r) in recs.into_iter().enumerate() {
        match ty_val {
            Some((ty, v)) if Some(k) == mine => log.push(format!("REC {r} ty={ty} val={v}")),
            _ => log.push(format!("REC {r}")),
        }
    }
}

#[salsa::input]
struct Inp {
    #[returns(copy)]
    a: u32,
}

#[salsa::interned(revisions = 1)]
struct I1<'db> {
    #[returns(copy)]
    v: V,
}
#[salsa::interned(revisions = 2)]
struct I2<'db> {
    #[returns(copy)]
    v: V,
}
#[salsa::interned(revisions = 3)]
struct I3<'db> {
    #[returns(copy)]
    v: V,
}
#[salsa::interned(revisions = usize::MAX)]
struct IM<'db> {
    #[returns(copy)]
    v: V,
}
#[salsa::interned]
struct ID<'db> {
    #[returns(copy)]
    v: V,
}

// One family of tracked functions per interned type (written out: `salsa::tracked`
// does not compose with `macro_rules!` hygiene).
#[salsa::tracked(returns(copy))]
fn after_1<'db>(db: &'db dyn Database, inp: Inp, val: u32) -> I1<'db> {
    let _ = inp.a(db);
    let h = I1::new(db, V(val));
    drain(Some(("1", val)));
    h
}
#[salsa::tracked(returns(copy))]
fn before_1<'db>(db: &'db dyn Database, inp: Inp, val: u32) -> I1<'db> {
    let h = I1::new(db, V(val));
    drain(Some(("1", val)));
    let _ = inp.a(db);
    h
}
#[salsa::tracked(returns(copy))]
fn dyn_1<'db>(db: &'db dyn Database, inp: Inp) -> I1<'db> {
    let val = inp.a(db);
    let h = I1::new(db, V(val));
    drain(Some(("1", val)));
    h
}
#[salsa::tracked(returns(copy))]
fn keyed_1<'db>(db: &'db dyn Database, h: I1<'db>) -> u32 {
    h.v(db).0
}
#[salsa::tracked(returns(copy))]
fn use_1<'db>(db: &'db dyn Database, inp: Inp, val: u32) -> I1<'db> {
    let h = after_1(db, inp, val);
    let _ = keyed_1(db, h);
    h
}
#[salsa::tracked(returns(copy))]
fn dynuse_1<'db>(db: &'db dyn Database, inp: Inp) -> (I1<'db>, u32, u32) {
    let h = dyn_1(db, inp);
    let k = keyed_1(db, h);
    (h, k, h.v(db).0)
}
#[salsa::tracked(returns(copy))]
fn dynread_1<'db>(db: &'db dyn Database, inp: Inp) -> (I1<'db>, u32, u32) {
    let h = dyn_1(db, inp);
    let d = h.v(db).0;
    (h, d, d)
}

#[salsa::tracked(returns(copy))]
fn after_2<'db>(db: &'db dyn Database, inp: Inp, val: u32) -> I2<'db> {
    let _ = inp.a(db);
    let h = I2::new(db, V(val));
    drain(Some(("2", val)));
    h
}
#[salsa::tracked(returns(copy))]
fn before_2<'db>(db: &'db dyn Database, inp: Inp, val: u32) -> I2<'db> {
    let h = I2::new(db, V(val));
    drain(Some(("2", val)));
    let _ = inp.a(db);
    h
}
#[salsa::tracked(returns(copy))]
fn dyn_2<'db>(db: &'db dyn Database, inp: Inp) -> I2<'db> {
    let val = inp.a(db);
    let h = I2::new(db, V(val));
    drain(Some(("2", val)));
    h
}
#[salsa::tracked(returns(copy))]
fn keyed_2<'db>(db: &'db dyn Database, h: I2<'db>) -> u32 {
    h.v(db).0
}
#[salsa::tracked(returns(copy))]
fn use_2<'db>(db: &'db dyn Database, inp: Inp, val: u32) -> I2<'db> {
    let h = after_2(db, inp, val);
    let _ = keyed_2(db, h);
    h
}
#[salsa::tracked(returns(copy))]
fn dynuse_2<'db>(db: &'db dyn Database, inp: Inp) -> (I2<'db>, u32, u32) {
    let h = dyn_2(db, inp);
    let k = keyed_2(db, h);
    (h, k, h.v(db).0)
}
#[salsa::tracked(returns(copy))]
fn dynread_2<'db>(db: &'db dyn Database, inp: Inp) -> (I2<'db>, u32, u32) {
    let h = dyn_2(db, inp);
    let d = h.v(db).0;
    (h, d, d)
}

#[salsa::tracked(returns(copy))]
fn after_3<'db>(db: &'db dyn Database, inp: Inp, val: u32) -> I3<'db> {
    let _ = inp.a(db);
    let h = I3::new(db, V(val));
    drain(Some(("3", val)));
    h
}
#[salsa::tracked(returns(copy))]
fn before_3<'db>(db: &'db dyn Database, inp: Inp, val: u32) -> I3<'db> {
    let h = I3::new(db, V(val));
    drain(Some(("3", val)));
    let _ = inp.a(db);
    h
}
#[salsa::tracked(returns(copy))]
fn dyn_3<'db>(db: &'db dyn Database, inp: Inp) -> I3<'db> {
    let val = inp.a(db);
    let h = I3::new(db, V(val));
    drain(Some(("3", val)));
    h
}
#[salsa::tracked(returns(copy))]
fn keyed_3<'db>(db: &'db dyn Database, h: I3<'db>) -> u32 {
    h.v(db).0
}
#[salsa::tracked(returns(copy))]
fn use_3<'db>(db: &'db dyn Database, inp: Inp, val: u32) -> I3<'db> {
    let h = after_3(db, inp, val);
    let _ = keyed_3(db, h);
    h
}
#[salsa::tracked(returns(copy))]
fn dynuse_3<'db>(db: &'db dyn Database, inp: Inp) -> (I3<'db>, u32, u32) {
    let h = dyn_3(db, inp);
    let k = keyed_3(db, h);
    (h, k, h.v(db).0)
}
#[salsa::tracked(returns(copy))]
fn dynread_3<'db>(db: &'db dyn Database, inp: Inp) -> (I3<'db>, u32, u32) {
    let h = dyn_3(db, inp);
    let d = h.v(db).0;
    (h, d, d)
}

#[salsa::tracked(returns(copy))]
fn after_m<'db>(db: &'db dyn Database, inp: Inp, val: u32) -> IM<'db> {
    let _ = inp.a(db);
    let h = IM::new(db, V(val));
    drain(Some(("M", val)));
    h
}
#[salsa::tracked(returns(copy))]
fn before_m<'db>(db: &'db dyn Database, inp: Inp, val: u32) -> IM<'db> {
    let h = IM::new(db, V(val));
    drain(Some(("M", val)));
    let _ = inp.a(db);
    h
}
#[salsa::tracked(returns(copy))]
fn dyn_m<'db>(db: &'db dyn Database, inp: Inp) -> IM<'db> {
    let val = inp.a(db);
    let h = IM::new(db, V(val));
    drain(Some(("M", val)));
    h
}
#[salsa::tracked(returns(copy))]
fn keyed_m<'db>(db: &'db dyn Database, h: IM<'db>) -> u32 {
    h.v(db).0
}
#[salsa::tracked(returns(copy))]
fn use_m<'db>(db: &'db dyn Database, inp: Inp, val: u32) -> IM<'db> {
    let h = after_m(db, inp, val);
    let _ = keyed_m(db, h);
    h
}
#[salsa::tracked(returns(copy))]
fn dynuse_m<'db>(db: &'db dyn Database, inp: Inp) -> (IM<'db>, u32, u32) {
    let h = dyn_m(db, inp);
    let k = keyed_m(db, h);
    (h, k, h.v(db).0)
}
#[salsa::tracked(returns(copy))]
fn dynread_m<'db>(db: &'db dyn Database, inp: Inp) -> (IM<'db>, u32, u32) {
    let h = dyn_m(db, inp);
    let d = h.v(db).0;
    (h, d, d)
}

#[salsa::tracked(returns(copy))]
fn after_d<'db>(db: &'db dyn Database, inp: Inp, val: u32) -> ID<'db> {
    let _ = inp.a(db);
    let h = ID::new(db, V(val));
    drain(Some(("D", val)));
    h
}
#[salsa::tracked(returns(copy))]
fn before_d<'db>(db: &'db dyn Database, inp: Inp, val: u32) -> ID<'db> {
    let h = ID::new(db, V(val));
    drain(Some(("D", val)));
    let _ = inp.a(db);
    h
}
#[salsa::tracked(returns(copy))]
fn dyn_d<'db>(db: &'db dyn Database, inp: Inp) -> ID<'db> {
    let val = inp.a(db);
    let h = ID::new(db, V(val));
    drain(Some(("D", val)));
    h
}
#[salsa::tracked(returns(copy))]
fn keyed_d<'db>(db: &'db dyn Database, h: ID<'db>) -> u32 {
    h.v(db).0
}
#[salsa::tracked(returns(copy))]
fn use_d<'db>(db: &'db dyn Database, inp: Inp, val: u32) -> ID<'db> {
    let h = after_d(db, inp, val);
    let _ = keyed_d(db, h);
    h
}
#[salsa::tracked(returns(copy))]
fn dynuse_d<'db>(db: &'db dyn Database, inp: Inp) -> (ID<'db>, u32, u32) {
    let h = dyn_d(db, inp);
    let k = keyed_d(db, h);
    (h, k, h.v(db).0)
}
#[salsa::tracked(returns(copy))]
fn dynread_d<'db>(db: &'db dyn Database, inp: Inp) -> (ID<'db>, u32, u32) {
    let h = dyn_d(db, inp);
    let d = h.v(db).0;
    (h, d, d)
}

#[salsa::db]
#[derive(Clone)]
struct Db {
    storage: salsa::Storage<Self>,
}

#[salsa::db]
impl salsa::Database for Db {}

fn rev_num(r: salsa::Revision) -> String {
    format!("{r:?}").trim_start_matches('R').to_string()
}

fn new_db() -> Db {
    let cb = move |e: salsa::Event| {
        use salsa::EventKind::*;
        let line = match e.kind {
            DidInternValue { key, revision } => Some(("intern", key, rev_num(revision))),
            DidReuseInternedValue { key, revision } => Some(("reuse", key, rev_num(revision))),
            DidValidateInternedValue { key, revision } => {
                Some(("validate", key, rev_num(revision)))
            }
            DidDiscard { key } => Some(("discard", key, "-".to_string())),
            WillExecute { database_key } => Some(("exec", database_key, "-".to_string())),
            DidValidateMemoizedValue { database_key } => {
                Some(("valid", database_key, "-".to_string()))
            }
            _ => None,
        };
        if let Some((kind, key, rev)) = line {
            let (ing, idx, generation) = salsa::verif::key_parts(key);
            log(format!("EV {kind} {ing} {idx} {generation} {rev}"));
            // the event callback is user code: the armed fault fires here (once)
            let want = KINDS[EV_KIND.load(Ordering::SeqCst) as usize];
            if (want == "any" || want == kind) && tick(&EV_LEFT) {
                log(format!("FAULT ev {kind}"));
                panic!("{INJECTED}");
            }
        }
    };
    Db {
        storage: salsa::Storage::new(Some(Box::new(cb))),
    }
}

fn dur(s: Option<&str>) -> Durability {
    match s {
        Some("M") => Durability::MEDIUM,
        Some("H") => Durability::HIGH,
        _ => Durability::LOW,
    }
}

fn ret(id: salsa::Id, read: u32) {
    log(format!("RET {} {} {}", id.index(), id.generation(), read));
}

fn ret3(id: salsa::Id, read: u32, keyed: u32, direct: u32) {
    log(format!(
        "RET {} {} {} {} {}",
        id.index(),
        id.generation(),
        read,
        keyed,
        direct
    ));
}

macro_rules! dispatch {
    ($db:expr, $ty:expr, $f1:ident, $f2:ident, $f3:ident, $fm:ident, $fd:ident, ($($arg:expr),*)) => {
        match $ty {
            "1" => { let h = $f1($db, $($arg),*); ret(h.as_id(), h.v($db).0); }
            "2" => { let h = $f2($db, $($arg),*); ret(h.as_id(), h.v($db).0); }
            "3" => { let h = $f3($db, $($arg),*); ret(h.as_id(), h.v($db).0); }
            "M" => { let h = $fm($db, $($arg),*); ret(h.as_id(), h.v($db).0); }
            _ => { let h = $fd($db, $($arg),*); ret(h.as_id(), h.v($db).0); }
        }
    };
}

macro_rules! dispatch3 {
    ($db:expr, $ty:expr, $f1:ident, $f2:ident, $f3:ident, $fm:ident, $fd:ident, ($($arg:expr),*)) => {
        match $ty {
            "1" => { let (h, k, d) = $f1($db, $($arg),*); ret3(h.as_id(), h.v($db).0, k, d); }
            "2" => { let (h, k, d) = $f2($db, $($arg),*); ret3(h.as_id(), h.v($db).0, k, d); }
            "3" => { let (h, k, d) = $f3($db, $($arg),*); ret3(h.as_id(), h.v($db).0, k, d); }
            "M" => { let (h, k, d) = $fm($db, $($arg),*); ret3(h.as_id(), h.v($db).0, k, d); }
            _ => { let (h, k, d) = $fd($db, $($arg),*); ret3(h.as_id(), h.v($db).0, k, d); }
        }
    };
}

fn intern_direct(db: &Db, ty: &str, v: u32) {
    macro_rules! one {
        ($I:ident, $name:literal) => {{
            let h = $I::new(db, V(v));
            drain(Some(($name, v)));
            ret(h.as_id(), h.v(db).0);
        }};
    }
    match ty {
        "1" => one!(I1, "1"),
        "2" => one!(I2, "2"),
        "3" => one!(I3, "3"),
        "M" => one!(IM, "M"),
        _ => one!(ID, "D"),
    }
}

/// Intern without touching the log (used from worker threads).
fn intern_quiet(db: &Db, ty: &str, v: u32) -> (u32, u32, u32) {
    macro_rules! one {
        ($I:ident) => {{
            let h = $I::new(db, V(v));
            (h.as_id().index(), h.as_id().generation(), h.v(db).0)
        }};
    }
    match ty {
        "1" => one!(I1),
        "2" => one!(I2),
        "3" => one!(I3),
        "M" => one!(IM),
        _ => one!(ID),
    }
}

fn after_quiet(db: &Db, ty: &str, inp: Inp, v: u32) -> (u32, u32, u32) {
    macro_rules! one {
        ($f:ident) => {{
            let h = $f(db, inp, v);
            (h.as_id().index(), h.as_id().generation(), h.v(db).0)
        }};
    }
    match ty {
        "1" => one!(after_1),
        "2" => one!(after_2),
        "3" => one!(after_3),
        "M" => one!(after_m),
        _ => one!(after_d),
    }
}

fn shardmap(k: u32) {
    let db = new_db();
    println!("NSHARDS {}", salsa::verif_intern::verif_shard_count());
    for ty in ["1", "2", "3", "M", "D"] {
        for v in 0..k {
            intern_direct(&db, ty, v);
            let lines: Vec<String> = std::mem::take(&mut *LOG.lock().unwrap());
            for l in lines {
                if let Some(rest) = l.strip_prefix("REC op=intern ") {
                    let get = |key: &str| {
                        rest.split(' ')
                            .find_map(|kv| kv.strip_prefix(key))
                            .unwrap_or("?")
                            .to_string()
                    };
                    let hash: u64 = get("hash=").parse().unwrap_or(0);
                    assert_eq!(
                        get("shard="),
                        salsa::verif_intern::verif_shard_of_hash(hash).to_string()
                    );
                    println!("SHARD {ty} {v} {} {}", get("shard="), get("hash="));
                }
            }
        }
    }
}

/// Runs one `get`/`intern` operation; `Err` carries the panic payload.
fn run_query(db: &Db, inputs: &[Inp], w: &[&str]) {
    if w[0] == "intern" {
        intern_direct(db, w[1], w[2].parse().unwrap());
        return;
    }
    let ty = w[2];
    let inp = inputs[w[3].parse::<usize>().unwrap()];
    match w[1] {
        "after" => {
            let v: u32 = w[4].parse().unwrap();
            dispatch!(db, ty, after_1, after_2, after_3, after_m, after_d, (inp, v))
        }
        "before" => {
            let v: u32 = w[4].parse().unwrap();
            dispatch!(db, ty, before_1, before_2, before_3, before_m, before_d, (inp, v))
        }
        "use" => {
            let v: u32 = w[4].parse().unwrap();
            dispatch!(db, ty, use_1, use_2, use_3, use_m, use_d, (inp, v))
        }
        "dynuse" => {
            dispatch3!(db, ty, dynuse_1, dynuse_2, dynuse_3, dynuse_m, dynuse_d, (inp))
        }
        "dynread" => {
            dispatch3!(db, ty, dynread_1, dynread_2, dynread_3, dynread_m, dynread_d, (inp))
        }
        "dyn" => dispatch!(db, ty, dyn_1, dyn_2, dyn_3, dyn_m, dyn_d, (inp)),
        other => panic!("unknown query shape {other}"),
    }
}

fn main() {
    let args: Vec<String> = std::env::args().collect();
    if args.len() >= 3 && args[1] == "--shardmap" {
        shardmap(args[2].parse().unwrap());
        return;
    }
    // injected panics are expected: keep stderr for everything else
    let default_hook = std::panic::take_hook();
    std::panic::set_hook(Box::new(move |info| {
        let msg = info
            .payload()
            .downcast_ref::<String>()
            .map(String::as_str)
            .or_else(|| info.payload().downcast_ref::<&str>().copied());
        if msg != Some(INJECTED) {
            default_hook(info);
        }
    }));
    let mut db = new_db();
    let mut inputs: Vec<Inp> = Vec::new();
    println!("NSHARDS {}", salsa::verif_intern::verif_shard_count());
    let stdin = std::io::stdin();
    let mut k = 0usize;
    for line in stdin.lock().lines() {
        let line = line.unwrap();
        let line = line.split('#').next().unwrap().trim().to_string();
        if line.is_empty() {
            continue;
        }
        let w: Vec<&str> = line.split_whitespace().collect();
        println!("OP {k} {line}");
        k += 1;
        match w[0] {
            "inputs" => {
                let n: usize = w[1].parse().unwrap();
                for _ in 0..n {
                    inputs.push(Inp::new(&db, 0));
                }
            }
            "intern" | "get" => {
                let dbr: &Db = &db;
                if let Err(payload) = catch_unwind(AssertUnwindSafe(|| run_query(dbr, &inputs, &w))) {
                    let msg = payload
                        .downcast_ref::<String>()
                        .cloned()
                        .or_else(|| payload.downcast_ref::<&str>().map(|s| s.to_string()));
                    match msg {
                        Some(m) if m == INJECTED => log("RET panic injected".to_string()),
                        Some(m) => log(format!(
                            "RET panic other {}",
                            m.replace('\n', " ").chars().take(160).collect::<String>()
                        )),
                        None => log("RET panic other <non-string payload>".to_string()),
                    }
                }
            }
            "evfault" => {
                if w[1] == "off" {
                    EV_LEFT.store(0, Ordering::SeqCst);
                } else {
                    let kind = KINDS.iter().position(|k| *k == w[1]).expect("event kind");
                    EV_KIND.store(kind as u8, Ordering::SeqCst);
                    EV_LEFT.store(w[2].parse().unwrap(), Ordering::SeqCst);
                }
            }
            "userfault" => match w[1] {
                "hash" => HASH_LEFT.store(w[2].parse().unwrap(), Ordering::SeqCst),
                "eq" => EQ_LEFT.store(w[2].parse().unwrap(), Ordering::SeqCst),
                _ => {
                    HASH_LEFT.store(0, Ordering::SeqCst);
                    EQ_LEFT.store(0, Ordering::SeqCst);
                }
            },
            "set" => {
                let inp = inputs[w[1].parse::<usize>().unwrap()];
                let v: u32 = w[2].parse().unwrap();
                inp.set_a(&mut db).with_durability(dur(w.get(3).copied())).to(v);
            }
            "synth" => db.synthetic_write(dur(w.get(1).copied())),
            "newrev" => db.synthetic_write(Durability::LOW),
            "par" => {
                let ty = w[1].to_string();
                let lists: Vec<Vec<(bool, u32)>> = w[2]
                    .split(';')
                    .map(|l| {
                        l.split(',')
                            .map(|x| match x.strip_prefix('a') {
                                Some(v) => (true, v.parse().unwrap()),
                                None => (false, x.parse().unwrap()),
                            })
                            .collect()
                    })
                    .collect();
                let inp0 = inputs[0];
                let barrier = std::sync::Arc::new(std::sync::Barrier::new(lists.len()));
                let workers: Vec<_> = lists
                    .into_iter()
                    .enumerate()
                    .map(|(ti, list)| {
                        let dbc = db.clone();
                        let ty = ty.clone();
                        let barrier = barrier.clone();
                        std::thread::spawn(move || {
                            barrier.wait();
                            let mut out = Vec::new();
                            for (query, v) in list {
                                let (idx, generation, read) = if query {
                                    after_quiet(&dbc, &ty, inp0, v)
                                } else {
                                    intern_quiet(&dbc, &ty, v)
                                };
                                out.push(format!("PRET {ti} {v} {idx} {generation} {read}"));
                            }
                            out
                        })
                    })
                    .collect();
                for worker in workers {
                    for l in worker.join().unwrap() {
                        log(l);
                    }
                }
            }
            other => panic!("unknown op {other}"),
        }
        drain(None);
        let lines: Vec<String> = std::mem::take(&mut *LOG.lock().unwrap_or_else(|p| p.into_inner()));
        for l in lines {
            println!("{l}");
        }
        let left = (EV_LEFT.load(Ordering::SeqCst), HASH_LEFT.load(Ordering::SeqCst), EQ_LEFT.load(Ordering::SeqCst));
        if left != (0, 0, 0) {
            println!("ARMED ev={} hash={} eq={}", left.0.max(0), left.1.max(0), left.2.max(0));
        }
        println!("REV {}", rev_num(salsa::plumbing::current_revision(&db)));
    }
}
